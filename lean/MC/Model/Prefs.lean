import MC.Gen.Prefs
/-!
Model of the preference store: `set_preference` / `get_preference` (src/interface.rs) and
`set_string_pref`, `is_boolean_pref`, `set_api_*_pref`, `set_separators`, `pref_to_string` (src/prefs.rs).

Two association maps (user, api). Environment parameters (not modelled, see DESIGN §4 C12):
 * `filesOk pref value` — does `reset_files_from_preference_change` find the rule files (it does for a complete Rules dir, C15);
 * `normFloat` — Rust's `str::parse::<f64>` followed by `f64::to_string`.
Rust `unwrap`s on the modelled path are explicit `panic` outcomes.
-/
namespace MC.Prefs

abbrev PMap := List (String × Val)

def pget (m : PMap) (k : String) : Option Val := m.lookup k

/-- HashMap::insert: replace the value of an existing key, else add -/
def pset : PMap → String → Val → PMap
  | [], k, v => [(k, v)]
  | (k', v') :: rest, k, v => if k' = k then (k, v) :: rest else (k', v') :: pset rest k v

structure PState where
  user : PMap
  api : PMap
  initialized : Bool
deriving Repr, DecidableEq

structure Env where
  filesOk : String → String → Bool
  normFloat : String → Option String

inductive Outcome (α : Type) where
  | ok (a : α)
  | err (kind : String)
  | panic (site : String)
deriving Repr, DecidableEq

def noPreference : String := "\uFFFF"

def Val.render : Val → String
  | .str s => s
  | .bool b => if b then "true" else "false"
  | .num s => s

/-- `pref_to_string`: api map shadows user map; `none` = NO_PREFERENCE -/
def prefToString (s : PState) (name : String) : Option String :=
  match (pget s.api name) with
  | some v => some v.render
  | none => (pget s.user name).map Val.render

/-- `get_preference` -/
def getPreference (s : PState) (name : String) : Outcome String :=
  match prefToString s name with
  | none => .err "no-preference"
  | some v => if v = noPreference then .err "no-preference" else .ok v

def asciiLower (s : String) : String := s.map fun c => if 'A' ≤ c ∧ c ≤ 'Z' then Char.ofNat (c.toNat + 32) else c

/-- the language `set_separators` works with: `Auto` stands for the language the host gave in `LanguageAuto`, and for English before it gave one -/
def effLanguage (s : PState) (languageCountry : String) : String :=
  if languageCountry ≠ "Auto" then languageCountry
  else match prefToString s "LanguageAuto" with
    | some la => if la = "" || la = noPreference then "en" else la
    | none => "en"

/-- `str::split('-')` on characters (structural, so that the kernel can evaluate it; `String.splitOn` is by well-founded recursion) -/
def splitDash : List Char → List (List Char)
  | [] => [[]]
  | c :: rest =>
    if c = '-' then [] :: splitDash rest
    else match splitDash rest with
      | h :: t => (c :: h) :: t
      | [] => [[c]]

/-- the separators of a language tag and a (valid) `DecimalSeparator` value: (`DecimalSeparators`, `BlockSeparators`) -/
def deriveSeparators (languageCountry dec : String) : String × String :=
  let lc := asciiLower languageCountry
  let parts := (splitDash lc.toList).map String.ofList
  let language := parts.getD 0 ""
  let country := parts.getD 1 ""
  let usePeriod :=
    if dec = "Auto" then MC.Gen.Prefs.useDecimalPoint.contains lc || MC.Gen.Prefs.useDecimalPoint.contains language
    else dec = "."
  (if usePeriod then "." else ",",
   (if usePeriod then ", \u00A0\u202F" else ". \u00A0\u202F") ++ (if country = "ch" || country = "li" then "'" else ""))

def validDec (dec : String) : Bool := dec = "Auto" || dec = "," || dec = "."

/-- `set_separators` (src/prefs.rs): derive DecimalSeparators / BlockSeparators from language + DecimalSeparator pref -/
def setSeparators (s : PState) (languageCountry : String) : PState :=
  let dec := (prefToString s "DecimalSeparator").getD noPreference
  if !validDec dec then s
  else
    let d := deriveSeparators (effLanguage s languageCountry) dec
    { s with user := pset (pset s.user "DecimalSeparators" (.str d.1)) "BlockSeparators" (.str d.2) }

/-- `reset_files_from_preference_change`: the only effect on the maps is the `Language := Auto` special case -/
def resetFiles (E : Env) (s : PState) (pref value : String) : Outcome PState :=
  if pref = "Language" && value = "Auto" then
    .ok { s with api := pset s.api "LanguageAuto" ((pget s.user "Language").getD (.str "en")) }
  else if E.filesOk pref value then .ok s else .err "file-not-found"

def strOf? : Val → Option String
  | .str s => some s
  | _ => none

/-- first half of `set_string_pref`: which map receives the value (`true` = user map) and the file recomputation.
(after the fix: boolean-typed prefs reject non-boolean text; numbers are compared by their text) -/
def chooseMap (E : Env) (s : PState) (key value : String) : Outcome (PState × Bool) :=
  match pget s.api key with
  | some (.bool _) => .err "wrong-kind-boolean"
  | some v =>
    if v.render ≠ value then
      match resetFiles E s key value with
      | .ok s1 => .ok (s1, false)
      | .err k => .err k
      | .panic p => .panic p
    else .ok (s, false)      -- `is_user_pref = false` also when the value is unchanged
  | none =>
    match pget s.user key with
    | some (.bool _) => .err "wrong-kind-boolean"
    | some v =>
      if v.render ≠ value then
        match resetFiles E s key value with
        | .ok s1 => .ok (s1, true)
        | .err k => .err k
        | .panic p => .panic p
      else .ok (s, true)
    | none => .err "unknown-preference"

/-- second half of `set_string_pref` for the user map, with the separator recomputation -/
def storeUser (s1 : PState) (key value : String) : Outcome PState :=
  match (pget s1.user "DecimalSeparator").bind strOf? with
  | none => .panic "prefs.rs:set_string_pref:DecimalSeparator.unwrap"
  | some curDec =>
    let langChanged? : Outcome Bool :=
      if key = "Language" then
        match (pget s1.user "Language").bind strOf? with
        | none => .panic "prefs.rs:set_string_pref:Language.unwrap"
        | some l => .ok (l ≠ value)
      else .ok false
    match langChanged? with
    | .panic p => .panic p
    | .err k => .err k
    | .ok langChanged =>
      let decChanged := key = "DecimalSeparator" && curDec ≠ value
      let s2 : PState := { s1 with user := pset s1.user key (.str value) }
      if decChanged || langChanged then      -- (the language also matters with an explicit DecimalSeparator: the country decides about ' as a block separator)
        match pget s2.user "Language" with
        | some (.str l) => .ok (setSeparators s2 l)
        | some _ => .panic "prefs.rs:set_string_pref:language.as_str.unwrap"
        | none => .ok (setSeparators s2 "en")
      else .ok s2

/-- `set_string_pref` up to the store into one of the two maps -/
def setStringPrefCore (E : Env) (s : PState) (key value : String) : Outcome PState :=
  match chooseMap E s key value with
  | .err k => .err k
  | .panic p => .panic p
  | .ok (s1, isUser) =>
    if isUser then storeUser s1 key value
    else .ok { s1 with api := pset s1.api key (.str value) }

/-- `set_string_pref`: with `LanguageAuto` the language that `Language = Auto` stands for is known, and it decides the separators -/
def setStringPref (E : Env) (s : PState) (key value : String) : Outcome PState :=
  match setStringPrefCore E s key value with
  | .ok s2 => .ok (if key = "LanguageAuto" then setSeparators s2 value else s2)
  | .err k => .err k
  | .panic p => .panic p

/-- `is_boolean_pref` -/
def isBooleanPref (s : PState) (key : String) : Option Bool :=
  match (pget s.api key).orElse (fun _ => pget s.user key) with
  | none => none
  | some (.bool _) => some true
  | some _ => some false

/-- language tag clean-up of `set_preference`: keep the first two `-` separated parts; `none` = "Improper format" -/
def normLanguage (value : String) : Option String :=
  if value = "Auto" then some value else
  let parts := (splitDash value.toList).map String.ofList
  let language := parts.getD 0 ""
  let country := parts.getD 1 ""
  if language.utf8ByteSize ≠ 2 then none
  else some (if country.isEmpty then language else language ++ "-" ++ country)

/-- `set_preference` -/
def setPreference (E : Env) (s : PState) (name value : String) : Outcome PState :=
  let value? : Outcome String :=
    if name = "Language" || name = "LanguageAuto" then
      match normLanguage value with
      | none => .err "language-format"
      | some v => if name = "LanguageAuto" && v = "Auto" then .err "languageauto-auto" else .ok v
    else .ok value
  match value? with
  | .err k => .err k
  | .panic p => .panic p
  | .ok value =>
    if !s.initialized then .err "not-initialized" else
    if name = "LanguageAuto" && (prefToString s "Language").getD noPreference ≠ "Auto" then .err "languageauto-needs-auto" else
    let lower := asciiLower value
    if MC.Gen.Prefs.floatNames.contains name then
      match E.normFloat value with
      | none => .err "not-a-float"
      | some f => .ok { s with api := pset s.api name (.num f) }
    else if lower = "true" || lower = "false" then
      match isBooleanPref s name with
      | none => .err "unknown-preference"
      | some true => .ok { s with api := pset s.api name (.bool (lower = "true")) }
      | some false => setStringPref E s name value
    else setStringPref E s name value

/-- state after `set_rules_dir` on a directory whose prefs.yaml is the shipped one and no user prefs.yaml -/
def initState : PState :=
  let user := MC.Gen.Prefs.prefsYaml.foldl (fun m (k, v) => pset m k v) MC.Gen.Prefs.userDefaults
  let s : PState := { user := user, api := MC.Gen.Prefs.apiDefaults, initialized := true }
  match (pget s.user "Language") with
  | some (.str l) => setSeparators s l
  | _ => s

def uninit : PState := { user := [], api := [], initialized := false }

end MC.Prefs
