namespace MC.Prefs
/-- a stored preference value (yaml-rust `Yaml::String / Boolean / Integer|Real`; numbers are kept as their text) -/
inductive Val where
  | str (s : String)
  | bool (b : Bool)
  | num (s : String)
deriving DecidableEq, Repr
end MC.Prefs
