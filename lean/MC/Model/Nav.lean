/-!
Model of the navigation state machine of src/navigate.rs: `NavigationState` (position/command stacks, place markers),
`reset`, `reset_for_new_mathml`, `set_navigation_node_from_id`, `do_navigate_command_string` with its three-try loop,
`apply_navigation_rules` and `pop_stack`.

The navigation *rules* (YAML evaluated by sxd_xpath) are an environment parameter: for each try the oracle supplies what
the rules answered (`Try`). Rust `unwrap`s/`assert`s on the modelled path are explicit `panic` outcomes.
Stacks are stored TOP FIRST.
-/
namespace MC.Nav

structure Pos where
  id : String
  off : Nat
deriving DecidableEq, Repr

def illegal : String := "!not set"
def Pos.dflt : Pos := ⟨illegal, 0⟩

structure NavState where
  positions : List Pos
  commands : List String
  markers : List Pos
  mode : String
  overview : Bool
deriving DecidableEq, Repr

def init : NavState := { positions := [], commands := [], markers := List.replicate 10 Pos.dflt, mode := "", overview := false }

/-- what the rules answered on one try -/
structure Try where
  ruleErr : Bool            -- match_pattern / context variable failure ⇒ Err
  node : Option Pos         -- `NavNode`/`NavNodeOffset` (none ⇒ NavigationPosition::default())
  mode : String
  overview : Bool
  inTree : Bool             -- get_node_by_id(mathml, NavNode).is_some()
  speak : Bool              -- `SpeakExpression`
  speakErr : Bool           -- speak() failed
  speechEmpty : Bool        -- node_speech.is_empty()
deriving Repr

inductive Outcome (α : Type) where
  | ok (a : α)
  | err (kind : String)
  | panic (site : String)
deriving Repr, DecidableEq

/-- `reset` -/
def reset (s : NavState) : NavState := { s with positions := [], commands := [] }
/-- `reset_for_new_mathml` (called by set_mathml) -/
def resetForNewMathml (s : NavState) : NavState := { (reset s) with markers := List.replicate 10 Pos.dflt }

def push (s : NavState) (p : Pos) (c : String) : NavState := { s with positions := p :: s.positions, commands := c :: s.commands }

/-- `pop`: `assert_eq!` on the lengths is a panic outcome -/
def pop (s : NavState) : Outcome (Option (Pos × String) × NavState) :=
  if s.positions.length ≠ s.commands.length then .panic "navigate.rs:pop:assert_eq" else
  match s.positions, s.commands with
  | p :: ps, c :: cs => .ok (some (p, c), { s with positions := ps, commands := cs })
  | _, _ => .ok (none, s)

def top (s : NavState) : Option (Pos × String) :=
  match s.positions, s.commands with
  | p :: _, c :: _ => some (p, c)
  | _, _ => none

/-- `set_navigation_node_from_id`; `found`/`leaf` are what get_node_by_id / is_leaf answer for the id -/
def setNode (s : NavState) (id : String) (off : Nat) (found leaf : Bool) : Outcome NavState :=
  if !found then .err "id-not-found"
  else if !leaf && off ≠ 0 then .err "offset-on-non-leaf"
  else .ok (push (reset s) ⟨id, off⟩ "None")

def isMoveOrZoom (cmd : String) : Bool :=
  (cmd.startsWith "Move" || cmd.startsWith "Zoom") && cmd ≠ "MoveLastLocation"

/-- digit at the end of a place-marker command -/
def markerIndex (cmd : String) : Option Nat :=
  match cmd.toList.getLast? with
  | some c => if c.isDigit then some (c.toNat - 48) else none
  | none => none

/-- the loop of `pop_stack` (runs `n` times): look at the top, pop it if it is a Move/Zoom entry; an empty stack ends the
loop (a retried command that does not move pushed nothing) -/
def popLoop : Nat → NavState → Outcome NavState
  | 0, s => .ok s
  | n+1, s =>
    match top s with
    | none => .ok s
    | some (_, c) =>
      if isMoveOrZoom c then
        match pop s with
        | .ok (_, s') => popLoop n s'
        | .err k => .err k
        | .panic p => .panic p
      else popLoop n s

/-- `pop_stack(nav_state, count)` -/
def popStack (s : NavState) (count : Nat) : Outcome NavState :=
  if count = 0 then .ok s else
  match pop s with
  | .ok (some (tp, tc), s1) =>
    (match popLoop count s1 with
     | .ok s2 => .ok (push s2 tp tc)
     | .err k => .err k
     | .panic p => .panic p)
  | .ok (none, _) => .panic "navigate.rs:pop_stack:pop.unwrap"
  | .err k => .err k
  | .panic p => .panic p

def Outcome.bind {α β : Type} (x : Outcome α) (f : α → Outcome β) : Outcome β :=
  match x with
  | .ok a => f a
  | .err k => .err k
  | .panic p => .panic p

/-- Move/Zoom commands push the new location (if the rules moved to another, legal node) -/
def pushStep (cmd : String) (t : Try) (s1 : NavState) : Outcome NavState :=
  let navPos := t.node.getD Pos.dflt
  if isMoveOrZoom cmd then
    if navPos ≠ Pos.dflt then
      match top s1 with
      | none => .panic "navigate.rs:apply_navigation_rules:top.unwrap"
      | some (tp, _) => if navPos.id ≠ tp.id && navPos.id ≠ illegal then .ok (push s1 navPos cmd) else .ok s1
    else .ok s1
  else .ok s1

/-- SetPlacemarkerN stores the rules' NavNode in marker N -/
def markerStep (cmd : String) (t : Try) (s2 : NavState) : Outcome NavState :=
  if cmd.startsWith "SetPlacemarker" then
    match t.node with
    | some p =>
      (match markerIndex cmd with
       | some k => if k < s2.markers.length then .ok { s2 with markers := s2.markers.set k p } else .panic "navigate.rs:place_markers:index"
       | none => .panic "navigate.rs:convert_last_char_to_number:assert")
    | none => .ok s2
  else .ok s2

/-- speak where we landed; empty speech ⇒ try again, otherwise clean the intermediate positions -/
def finishStep (i : Nat) (t : Try) (s3 : NavState) : Outcome (NavState × Bool) :=
  if t.inTree && t.speak then
    if t.speakErr then .err "speak"
    else if t.speechEmpty then .ok (s3, false)
    else (popStack s3 i).bind fun s4 => .ok (s4, true)
  else (popStack s3 i).bind fun s4 => .ok (s4, true)

/-- `get_start_node`: the id navigation starts from -/
def startIdOf (rootId : String) (s : NavState) : String :=
  match top s with
  | none => rootId
  | some (p, _) => p.id

/-- `apply_navigation_rules`; result `(state, done)` -/
def applyRules (rootId : String) (inTreeId : String → Bool) (cmd : String) (i : Nat) (t : Try) (s : NavState) :
    Outcome (NavState × Bool) :=
  if !inTreeId (startIdOf rootId s) then .err "start-node-not-found" else
  if t.ruleErr then .err "rules" else
  (pushStep cmd t { s with mode := t.mode, overview := t.overview }).bind fun s2 =>
  (markerStep cmd t s2).bind fun s3 => finishStep i t s3

/-- the retry loop (LOOP_LIMIT = 3): `i` = loop_count, `fuel` = remaining iterations -/
def tryLoop (rootId : String) (inTreeId : String → Bool) (cmd : String) : (fuel : Nat) → (i : Nat) → List Try → NavState → Outcome NavState
  | 0, _, _, _ => .err "loop-limit"
  | _+1, _, [], _ => .err "oracle-exhausted"
  | f+1, i, t :: ts, s =>
    match applyRules rootId inTreeId cmd i t s with
    | .ok (s', true) => .ok s'
    | .ok (s', false) => tryLoop rootId inTreeId cmd f (i + 1) ts s'
    | .err k => .err k
    | .panic p => .panic p

/-- initial push of the root when the stack is empty -/
def ensureRoot (rootId : String) (s : NavState) : NavState :=
  if s.positions.isEmpty then push s ⟨rootId, 0⟩ "None" else s

/-- init_navigation_context indexes place_markers[digit] for commands ending in a digit -/
def markerIdxOk (cmd : String) (s : NavState) : Bool :=
  match markerIndex cmd with
  | some k => decide (k < s.markers.length)
  | none => true

/-- MoveLastLocation starts by popping the last location -/
def undoStep (cmd : String) (s1 : NavState) : Outcome NavState :=
  if cmd = "MoveLastLocation" then (pop s1).bind fun r => .ok r.2 else .ok s1

/-- `do_navigate_command_string` (after the "MathML has not been set" check) -/
def doCommand (rootId : String) (inTreeId : String → Bool) (cmd : String) (tries : List Try) (s : NavState) : Outcome NavState :=
  if !markerIdxOk cmd (ensureRoot rootId s) then .panic "navigate.rs:init_navigation_context:place_markers" else
  (undoStep cmd (ensureRoot rootId s)).bind fun s2 => tryLoop rootId inTreeId cmd 3 0 tries s2

/-- the current navigation position as reported by `get_navigation_mathml_id` -/
def current (rootId : String) (s : NavState) : Pos :=
  match s.positions with
  | [] => ⟨rootId, 0⟩
  | p :: _ => p

end MC.Nav
