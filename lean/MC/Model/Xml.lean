/-!
Common vocabulary for the canonicalization properties: XML trees, the serializer of src/pretty_print.rs
(`handle_special_chars`), and `add_ids` of src/interface.rs.
-/
namespace MC.Xml

abbrev Str := List Nat

inductive Node where
  | elem (name : Str) (attrs : List (Str × Str)) (kids : List Node)
  | text (s : Str)
deriving Repr, Inhabited

def s (x : String) : Str := x.toList.map Char.toNat

/-! ### `handle_special_chars` -/

def escapeChar (c : Nat) : Str :=
  if c = 34 then s "&quot;" else if c = 38 then s "&amp;" else if c = 39 then s "&apos;"
  else if c = 60 then s "&lt;" else if c = 62 then s "&gt;"
  else if c = 0x2061 then s "&#x2061;" else if c = 0x2062 then s "&#x2062;"
  else if c = 0x2063 then s "&#x2063;" else if c = 0x2064 then s "&#x2064;"
  else [c]

def escape (t : Str) : Str := t.flatMap escapeChar

/-- `format_attrs`: in an attribute value a line break or tab is also written as a character reference
(an XML reader normalises the literal characters to blanks) -/
def escapeAttrChar (c : Nat) : Str :=
  if c = 10 then s "&#xA;" else if c = 13 then s "&#xD;" else if c = 9 then s "&#x9;" else escapeChar c

def escapeAttr (t : Str) : Str := t.flatMap escapeAttrChar

def stripPrefix? : Str → Str → Option Str
  | [], r => some r
  | _ :: _, [] => none
  | p :: ps, c :: cs => if p = c then stripPrefix? ps cs else none

/-- the references `escape` writes, and what an XML parser reads them back as -/
def refs : List (Str × Nat) :=
  [(s "&quot;", 34), (s "&amp;", 38), (s "&apos;", 39), (s "&lt;", 60), (s "&gt;", 62),
   (s "&#x2061;", 0x2061), (s "&#x2062;", 0x2062), (s "&#x2063;", 0x2063), (s "&#x2064;", 0x2064),
   (s "&#xA;", 10), (s "&#xD;", 13), (s "&#x9;", 9)]

def readRef (t : Str) : Option (Nat × Str) :=
  refs.findSome? fun (r, c) => (stripPrefix? r t).map fun rest => (c, rest)

/-- XML reader restricted to what `escape` emits: `&…;` references decoded, everything else copied.
(fuel = length: every step consumes at least one character) -/
def unescape : (fuel : Nat) → Str → Str
  | 0, _ => []
  | _, [] => []
  | f+1, 38 :: r =>
    (match readRef (38 :: r) with
     | some (c, rest) => c :: unescape f rest
     | none => 38 :: unescape f r)
  | f+1, c :: r => c :: unescape f r

/-! ### `add_ids` -/

def hasId (attrs : List (Str × Str)) : Bool := attrs.any fun a => a.1 = s "id"

def natToStr (n : Nat) : Str := (toString n).toList.map Char.toNat

def isLeafName (n : Str) : Bool :=
  [s "mi", s "mo", s "mn", s "mtext", s "ms", s "mspace", s "mglyph", s "none", s "annotation", s "ci", s "cn", s "csymbol"].contains n

def idOf (attrs : List (Str × Str)) : Option Str := (attrs.find? fun a => a.1 = s "id").map (·.2)

/-- `set_attribute_value("id", v)` + `set_attribute_value("data-id-added", "true")` -/
def setId (attrs : List (Str × Str)) (v : Str) : List (Str × Str) :=
  if hasId attrs then attrs.map (fun a => if a.1 = s "id" then (a.1, v) else a) ++ [(s "data-id-added", s "true")]
  else attrs ++ [(s "id", v), (s "data-id-added", s "true")]

/-- one element: keep a usable author id (not seen earlier in the document), otherwise hand out `prefix ++ counter`.
Returns the new attributes, counter and the ids seen so far (most recent first). -/
def visit (pre : Str) (c : Nat) (seen : List Str) (attrs : List (Str × Str)) : List (Str × Str) × Nat × List Str :=
  match idOf attrs with
  | some a => if seen.contains a then (setId attrs (pre ++ natToStr c), c + 1, (pre ++ natToStr c) :: seen) else (attrs, c, a :: seen)
  | none => (setId attrs (pre ++ natToStr c), c + 1, (pre ++ natToStr c) :: seen)

mutual
/-- `add_ids_to_all`: depth-first; leaves are not descended into -/
def addIds (pre : Str) : Nat → List Str → Node → Node × Nat × List Str
  | c, seen, .text t => (.text t, c, seen)
  | c, seen, .elem n attrs kids =>
    let v := visit pre c seen attrs
    if isLeafName n then (.elem n v.1 kids, v.2.1, v.2.2)
    else let r := addIdsL pre v.2.1 v.2.2 kids; (.elem n v.1 r.1, r.2.1, r.2.2)
def addIdsL (pre : Str) : Nat → List Str → List Node → List Node × Nat × List Str
  | c, seen, [] => ([], c, seen)
  | c, seen, k :: ks => let r1 := addIds pre c seen k; let r2 := addIdsL pre r1.2.1 r1.2.2 ks; (r1.1 :: r2.1, r2.2.1, r2.2.2)
end


mutual
/-- ids of the elements `add_ids` visits (it does not descend into leaves) -/
def idsOf : Node → List (Option Str)
  | .text _ => []
  | .elem n attrs kids => idOf attrs :: (if isLeafName n then [] else idsOfL kids)
def idsOfL : List Node → List (Option Str)
  | [] => []
  | k :: ks => idsOf k ++ idsOfL ks
end

end MC.Xml
