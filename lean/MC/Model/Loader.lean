/-!
Model of the rule-file caches of src/speech.rs (`FileAndTime`, `FilesAndTimes::is_file_up_to_date`, `SpeechRules::read_files`,
the lazy full Unicode table in `replace_single_char`) and src/definitions.rs, over an abstract file system.
Files are numbers; a content is a version number; time 0 is `UNIX_EPOCH` (what `get_metadata` answers for a missing file).
-/
namespace MC.Loader

abbrev Path := Nat

structure FS where
  content : Path → Nat          -- version of the file's content
  mtime : Path → Nat            -- modification time; 0 = no such file
  good : Path → Bool            -- the file can be read and has the expected YAML shape
  incl : Path → List Path       -- the head file followed by everything it includes (transitively), as `read_patterns` returns it

/-- one cache: `FilesAndTimes` + the table built from the files -/
structure Cell where
  files : List (Path × Nat)     -- `ft`: (file, time when it was read); the head is the main file
  data : List (Path × Nat)      -- the table: which (file, content version) pairs it was built from; `[]` = empty table
deriving Repr, DecidableEq

def Cell.empty : Cell := ⟨[], []⟩

/-- `FilesAndTimes::is_file_up_to_date(pref_path, should_ignore_file_time)` -/
def upToDate (c : Cell) (pref : Path) (ignore : Bool) (fs : FS) : Bool :=
  match c.files with
  | [] => false
  | (p, t) :: _ => p == pref && (ignore || (t != 0 && c.files.all fun (q, tq) => tq ≥ fs.mtime q))

/-- the four kinds of cache differ in when they look at their table being empty -/
inductive Kind where
  | rules       -- `self.rules.is_empty() || !up_to_date`
  | uniShort    -- `!up_to_date`
  | defs        -- `ft.is_empty() || !up_to_date`
  | uniFull     -- `unicode_full.is_empty() || !up_to_date` (lazily, when a character is not in the short table)
deriving Repr, DecidableEq

def needsLoad (k : Kind) (c : Cell) (pref : Path) (ignore : Bool) (fs : FS) : Bool :=
  match k with
  | .rules => c.data.isEmpty || !upToDate c pref ignore fs
  | .uniShort => !upToDate c pref ignore fs
  | .defs => c.files.isEmpty || !upToDate c pref ignore fs
  | .uniFull => c.data.isEmpty || !upToDate c pref ignore fs

def contentOf (fs : FS) (ps : List Path) : List (Path × Nat) := ps.map fun p => (p, fs.content p)
def timesOf (fs : FS) (ps : List Path) : List (Path × Nat) := ps.map fun p => (p, fs.mtime p)

/-- bring one cache up to date. On a read/parse error the table has already been cleared and the record of the files has been
forgotten (`ft.clear()` before the read), so nothing counts as loaded and the next call tries again. -/
def refresh (k : Kind) (c : Cell) (pref : Path) (ignore : Bool) (fs : FS) : Cell × Bool :=
  if needsLoad k c pref ignore fs then
    if (fs.incl pref).all fs.good then (⟨timesOf fs (fs.incl pref), contentOf fs (fs.incl pref)⟩, true)
    else (Cell.empty, false)
  else (c, true)

/-- the caches one rule set uses: its rules, and the Unicode tables and definitions shared by its side (speech / braille) -/
structure Caches where
  rules : Cell
  uniShort : Cell
  defs : Cell
  uniFull : Cell
deriving Repr, DecidableEq

def Caches.empty : Caches := ⟨.empty, .empty, .empty, .empty⟩

/-- the files the current preferences resolve to (MC.Fallback) -/
structure Pref where
  rules : Path
  uniShort : Path
  defs : Path
  uniFull : Path

/-- `read_files` followed by a lookup that needs the full Unicode table when `full` is set.
`ignore` is `CheckRuleFiles != "All"`. Stops at the first error, like `?`. -/
def call (s : Caches) (p : Pref) (ignore full : Bool) (fs : FS) : Caches × Bool :=
  let r := refresh .rules s.rules p.rules ignore fs
  if !r.2 then ({ s with rules := r.1 }, false) else
  let u := refresh .uniShort s.uniShort p.uniShort ignore fs
  if !u.2 then ({ s with rules := r.1, uniShort := u.1 }, false) else
  let d := refresh .defs s.defs p.defs ignore fs
  if !d.2 then ({ s with rules := r.1, uniShort := u.1, defs := d.1 }, false) else
  if full then
    let f := refresh .uniFull s.uniFull p.uniFull ignore fs
    ({ rules := r.1, uniShort := u.1, defs := d.1, uniFull := f.1 }, f.2)
  else ({ s with rules := r.1, uniShort := u.1, defs := d.1 }, true)

/-- what a getter computes from: the tables of the caches it uses -/
def view (s : Caches) (full : Bool) : List (List (Path × Nat)) :=
  [s.rules.data, s.uniShort.data, s.defs.data] ++ (if full then [s.uniFull.data] else [])

def run (fs : FS) : List (Pref × Bool × Bool) → Caches → Caches
  | [], s => s
  | (p, ignore, full) :: rest, s => run fs rest (call s p ignore full fs).1

end MC.Loader
