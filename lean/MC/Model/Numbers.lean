/-!
Model of the number folding of src/canonicalize.rs: the locale regexes of `CanonicalizeContextPatterns::new` as
hand-written scanners, `is_likely_a_number`, `trim_whitespace`, `merge_block`, and the scan of `merge_number_blocks`,
for a row in a *neutral context* (not the last child of `math`, no fences next to it).

Guards (the correspondence run stays inside them, hook H4 checks the scanners outside them too):
block and decimal separator sets are disjoint and contain no ASCII digit; the decimal separator preference is one
character; token texts contain ASCII digits only where `\d` is meant.
-/
namespace MC.Numbers

abbrev Str := List Nat

structure Seps where
  block : List Nat
  dec : List Nat
deriving Repr

def isDig (c : Nat) : Bool := 48 ≤ c && c ≤ 57
def isHex (c : Nat) : Bool := isDig c || (97 ≤ c && c ≤ 102) || (65 ≤ c && c ≤ 70)
def allDig (s : Str) : Bool := s.all isDig

def span (p : Nat → Bool) : Str → Str × Str
  | [] => ([], [])
  | c :: cs => if p c then let (a, b) := span p cs; (c :: a, b) else ([], c :: cs)

/-- `[set]`.is_match(text): the text contains a character of the set -/
def hasAny (set : List Nat) (s : Str) : Bool := s.any set.contains

/-- `^\d*D?\d*$` -/
def digitOnly (S : Seps) (s : Str) : Bool :=
  match (span isDig s).2 with
  | [] => true
  | c :: r => S.dec.contains c && allDig r

/-- `([B]?\d{3})*` -/
def groupsTail (B : List Nat) : (fuel : Nat) → Str → Bool
  | _, [] => true
  | 0, _ => false
  | f+1, c :: r =>
    let body := if B.contains c then r else c :: r
    (body.take 3).length = 3 && allDig (body.take 3) && groupsTail B f (body.drop 3)

/-- `(\d*|\d{1,3}([B]?\d{3})*)` -/
def intOk (B : List Nat) (s : Str) : Bool :=
  allDig s || [1, 2, 3].any fun k => (s.take k).length = k && allDig (s.take k) && groupsTail B s.length (s.drop k)

/-- `(\d{n}[B])*\d{1,n}` -/
def fracGroups (n : Nat) (B : List Nat) : (fuel : Nat) → Str → Bool
  | 0, _ => false
  | f+1, s =>
    match span isDig s with
    | (ds, []) => 1 ≤ ds.length && ds.length ≤ n
    | (ds, c :: r) => ds.length = n && B.contains c && fracGroups n B f r

def fracOk (n : Nat) (B : List Nat) (s : Str) : Bool := allDig s || fracGroups n B (s.length + 1) s

/-- `^(int)([D](frac))?$` with fraction groups of `n` digits (3 or 5) -/
def blockPattern (n : Nat) (S : Seps) (s : Str) : Bool :=
  match span (fun c => !S.dec.contains c) s with
  | (ip, []) => intOk S.block ip
  | (ip, _ :: fp) => intOk S.block ip && fracOk n S.block fp

def isHexSep (c : Nat) : Bool := c = 32 || c = 0xA0 || c = 0x202F

/-- `^[0-9a-fA-F]{4}([   ][0-9a-fA-F]{4})*$` -/
def hex4 : (fuel : Nat) → Str → Bool
  | 0, _ => false
  | f+1, s =>
    (s.take 4).length = 4 && (s.take 4).all isHex &&
      (match s.drop 4 with
       | [] => true
       | c :: r => isHexSep c && hex4 f r)

def is1Sep (c : Nat) : Bool := c = 44 || c = 32 || c = 0xA0 || c = 0x202F

/-- `(\d([,   ]\d){2})*` then the optional `[\.](\d(￿\d)*)?` and the end -/
def b1Tail : (fuel : Nat) → Str → Bool
  | _, [] => true
  | 0, _ => false
  | f+1, s =>
    match s with
    | 46 :: r =>
      -- (\d(￿\d)*)?
      (match r with
       | [] => true
       | d :: r1 => isDig d && b1Frac f r1)
    | a :: s1 :: b :: s2 :: c :: r => isDig a && is1Sep s1 && isDig b && is1Sep s2 && isDig c && b1Tail f r
    | _ => false
where
  b1Frac : Nat → Str → Bool
    | _, [] => true
    | 0, _ => false
    | f+1, 0xFFFF :: d :: r => isDig d && b1Frac f r
    | _, _ => false

/-- `^((\d(￿\d)?)(\d([,   ]\d){2})*)?([\.](\d(￿\d)*)?)?$` -/
def block1 (s : Str) : Bool :=
  match s with
  | [] => true
  | 46 :: _ => b1Tail (s.length + 1) s
  | d :: 0xFFFF :: e :: r => isDig d && isDig e && b1Tail (s.length + 1) r
  | d :: r => isDig d && b1Tail (s.length + 1) r

def isWsChar (c : Nat) : Bool := (9 ≤ c && c ≤ 13) || c = 32 || c = 0x85 || c = 0xA0 || c = 0x1680 || (0x2000 ≤ c && c ≤ 0x200A) ||
  c = 0x2028 || c = 0x2029 || c = 0x202F || c = 0x205F || c = 0x3000
def trimWs (s : Str) : Str := ((span isWsChar ((span isWsChar s).2).reverse).2).reverse

/-- the regex part of `is_likely_a_number` on the gathered text -/
def numberText (S : Seps) (text0 : Str) : Bool :=
  let text := trimWs text0
  digitOnly S text || blockPattern 3 S text || blockPattern 5 S text || hex4 (text.length + 1) text ||
    ((text.length > 5 || hasAny S.dec text) && block1 text)

/-- kinds: 0 mn, 1 mo, 2 mtext, 3 anything else -/
structure Tok where
  kind : Nat
  text : Str
deriving DecidableEq, Repr

/-- text gathered by `is_likely_a_number`: U+FFFF between adjacent mn's -/
def gather : (prevMn : Bool) → List Tok → Str
  | _, [] => []
  | p, t :: r => (if p && t.kind = 0 then [0xFFFF] else []) ++ t.text ++ gather (t.kind = 0) r

/-- `is_likely_a_number` in a neutral context (no fences around the block) -/
def isLikely (S : Seps) (ts : List Tok) : Bool := numberText S (gather false ts)

/-- the sibling scan of `merge_number_blocks`: how many further tokens belong to the candidate; `(count, notANumber)` -/
def scanSibs (S : Seps) (dnm : Bool) : (hasDec : Bool) → List Tok → Nat × Bool
  | _, [] => (0, false)
  | hd, t :: r =>
    if t.kind = 0 then
      if hasAny S.block t.text || hasAny S.dec t.text then (0, false)     -- roman numerals are outside the guard
      else let (n, b) := scanSibs S dnm hd r; (n + 1, b)
    else if t.kind = 1 || t.kind = 2 then
      let isB := hasAny S.block t.text
      let isD := hasAny S.dec t.text
      if (t.text = [44] && dnm) || !(isB || isD) || (isD && hd) then (0, isD && hd)
      else let (n, b) := scanSibs S dnm (hd || isD) r; (n + 1, b)
    else (0, false)

/-- `is_comma_not_part_of_a_number` -/
def commaNotInNumber : List Tok → Bool
  | [] => false
  | first :: rest => go first rest
where
  go : Tok → List Tok → Bool
    | _, [] => false
    | prev, t :: r =>
      (t.kind = 1 && t.text = [44] && !r.isEmpty && (prev.kind ≠ 0 || (match r with | n :: _ => n.kind ≠ 0 | [] => true))) || go t r

def isBlankTok (t : Tok) : Bool := (trimWs t.text).isEmpty

/-- `trim_whitespace` + `merge_block` on the candidate block -/
def mergeBlock (ts : List Tok) : List Tok :=
  -- trim_whitespace: first and last non-blank child (if all are blank nothing is trimmed)
  let lead := (ts.takeWhile isBlankTok)
  if lead.length = ts.length then [⟨0, (ts.map (·.text)).flatten⟩] else
  let rest := ts.drop lead.length
  let trail := (rest.reverse.takeWhile isBlankTok).reverse
  let core := rest.take (rest.length - trail.length)
  lead ++ [⟨0, (core.map (·.text)).flatten⟩] ++ trail

/-- can this token start a number? (`mn`/`mtext` not already containing separators, or an `mo` that is a decimal separator) -/
def canStart (S : Seps) (dnm : Bool) (t : Tok) : Bool :=
  if t.kind = 0 || t.kind = 2 then !(hasAny S.block t.text || (t.text.length > 1 && hasAny S.dec t.text))
  else t.kind = 1 && !(dnm && t.text = [44]) && hasAny S.dec t.text

/-- the `while` loop of `merge_number_blocks` (neutral context) -/
def mergeLoop (S : Seps) (dnm : Bool) : (fuel : Nat) → List Tok → List Tok
  | 0, ts => ts
  | _, [] => []
  | f+1, t :: r =>
    if !canStart S dnm t then t :: mergeLoop S dnm f r
    else
      let (n, notNum) := scanSibs S dnm false r
      if notNum then
        -- i = end + 1: skip the block and the token after it
        (t :: r.take (n + 1)) ++ mergeLoop S dnm f (r.drop (n + 1))
      else if n ≥ 1 && isLikely S (t :: r.take n) then
        let merged := mergeBlock (t :: r.take n)
        -- restart after the merged token (position of the merged mn + 1)
        let lead := (t :: r.take n).takeWhile isBlankTok
        let k := if lead.length = n + 1 then 1 else lead.length + 1
        merged.take k ++ mergeLoop S dnm f (merged.drop k ++ r.drop n)
      else
        -- i = end; i += 1: skip the rejected block and the token after it
        (t :: r.take (n + 1)) ++ mergeLoop S dnm f (r.drop (n + 1))

def mergeRow (S : Seps) (ts : List Tok) : List Tok := mergeLoop S (commaNotInNumber ts) (ts.length + 1) ts

end MC.Numbers
