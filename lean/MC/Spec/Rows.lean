import MC.Model.Rows
/-!
Specification of C03 on bracketed trees (`Bracketed`), as an executable checker that reports which clause fails.
An `mo` leaf is classified by its position in its row, with the dictionary (`findOperator`), exactly as a reader of the
canonical MathML would: first child with an operand after it = prefix, last child = postfix, otherwise infix.
-/
namespace MC.Spec.Rows
open MC.Rows

def isOpLeaf : T → Bool
  | .op _ _ => true
  | _ => false

/-- operator of a leaf given what is on its left / right inside its row -/
def opAt (kids : List T) (i : Nat) : Option Op :=
  match kids[i]? with
  | some (.op text _) =>
    let leftOperand := i > 0 && (match kids[i-1]? with | some k => !isOpLeaf k || (match opAt0 kids (i-1) with | some o => o.isPostfix | none => false) | none => false)
    let rightOperand := match kids[i+1]? with | some k => !isOpLeaf k | none => false
    some (findOperator text leftOperand rightOperand)
  | _ => none
where
  opAt0 (kids : List T) (j : Nat) : Option Op :=
    match kids[j]? with
    | some (.op text _) => some (findOperator text (j > 0) (match kids[j+1]? with | some k => !isOpLeaf k | none => false))
    | _ => none

def rowOps (kids : List T) : List Op := (List.range kids.length).filterMap (opAt kids)

/-- is the row `( … )`: a left fence, content, the right fence -/
def isFenced (kids : List T) : Bool :=
  match kids.head?, kids.getLast? with
  | some (.op l _), some (.op r _) => kids.length ≥ 2 && (findOperator l false true).isLeftFence && (findOperator r true false).isRightFence
  | _, _ => false

/-- principal operator of a row: the operator all siblings share (for a fenced row: none — it acts as an operand) -/
def principal (kids : List T) : Option Op := if isFenced kids then none else (rowOps kids).head?

/-- clause (d), as the checker tests it: some child and its right neighbour are both operands -/
def adjacentOperands (kids : List T) : Bool :=
  (List.range (kids.length - 1)).any (fun i => match kids[i]?, kids[i+1]? with
    | some x, some y => !isOpLeaf x && !isOpLeaf y | _, _ => false)

mutual
/-- list of violated clauses, with a short description -/
def violations : T → List String
  | .operand _ => []
  | .op _ _ => []
  | .row kids =>
    let ops := rowOps kids
    let inner := if isFenced kids then (ops.drop 1).dropLast else ops
    -- (a) sibling operators share one precedence class or are n-ary compatible
    let a := match inner with
      | [] => []
      | o :: rest => if rest.all (fun p => p.prio = o.prio || isNary p o) then [] else ["(a) operators of different precedence side by side in one row"]
    -- (d) no two adjacent operands
    let d := if adjacentOperands kids then ["(d) adjacent operands without an operator"] else []
    -- (b) a nested infix/postfix row binds at least as tightly as this row's operator; prefix rows are unrestricted
    let b := match (if isFenced kids then none else ops.head?) with
      | none => []
      | some o => if kids.all (fun k => match k with
                    | .row ks => (match principal ks with
                        | some p => p.isPrefix && !p.isInfix && !p.isPostfix || p.prio ≥ o.prio
                        | none => true)
                    | _ => true) then [] else ["(b) a nested row binds less tightly than the row containing it"]
    a ++ d ++ b ++ violationsL kids
def violationsL : List T → List String
  | [] => []
  | t :: ts => violations t ++ violationsL ts
end

def bracketed (t : T) : Bool := (violations t).isEmpty

/-! ### clause (d) as a structural predicate (the form `MC.Props.C03Sep.parseRow_operands_separated` is stated in) -/

/-- no two neighbouring children are both operands -/
def noAdj : List T → Bool
  | x :: y :: r => (isOpLeaf x || isOpLeaf y) && noAdj (y :: r)
  | _ => true

mutual
/-- every row of the tree, at any depth, keeps its operands apart -/
def Separated : T → Bool
  | .row kids => noAdj kids && SeparatedL kids
  | _ => true
def SeparatedL : List T → Bool
  | [] => true
  | k :: ks => Separated k && SeparatedL ks
end

/-- does the checker report clause (d) anywhere in the tree? -/
def reportsD (t : T) : Bool := (violations t).any (fun v => v.startsWith "(d)")

end MC.Spec.Rows
