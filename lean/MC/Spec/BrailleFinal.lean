import MC.Model.BrailleFinal
/-! Specification vocabulary for C07: finite checks over the regenerated tables. -/
namespace MC.Spec.BrailleFinal
open MC.BrailleFinal

def codes : List Nat := [0, 1, 2, 3, 4, 5]

/-- every table value that can be used (key matched by the class, not replaced from a preference) is braille cells only -/
def valuesOk (code : Nat) : Bool :=
  (tableOf code).all fun (k, v) =>
    match k with
    | [c] => !(inRanges (classOf code) c) || (overriddenOf code).contains k || v.all isCell
    | _ => true          -- a multi-character key can never equal a one-character match

/-- every character a shipped rule/unicode literal can emit is a cell, a blank, an indicator the final phase consumes,
or a letter handled by the code's own clean-up passes: nothing leaks to the caller -/
def literalsOk (code : Nat) : Bool :=
  (MC.Gen.BrailleTabs.literalChars.getD code []).all fun c =>
    isCell c || c == 32 || inRanges (classOf code) c || (MC.Gen.BrailleTabs.handledChars.getD code []).contains c

def leakingLiterals (code : Nat) : List Nat :=
  (MC.Gen.BrailleTabs.literalChars.getD code []).filter fun c =>
    !(isCell c || c == 32 || inRanges (classOf code) c || (MC.Gen.BrailleTabs.handledChars.getD code []).contains c)

/-- keys that the class does not match (their entries are dead) -/
def unmatchedKeys (code : Nat) : List Str :=
  ((tableOf code).map (·.1)).filter fun k => match k with | [c] => !(inRanges (classOf code) c) | _ => true

end MC.Spec.BrailleFinal
