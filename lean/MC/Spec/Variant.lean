import MC.Model.Variant
import MC.Gen.Ucd
/-!
Specification vocabulary for C18 (what "the character that Unicode assigns to that letter in that mathematical
style" means), and the executable checkers used both by the theorems (`decide +kernel` over the whole generated
table) and by the driver (to search for a witness when a theorem stops checking).
-/
namespace MC.Spec.Variant
open MC.Variant

def nm (s : String) : List Nat := s.toList.map Char.toNat

/-- UCD style id (see header of Gen/Ucd.lean) of each MathML mathvariant value. -/
def variantStyle : List (List Nat × Nat) :=
  [ (nm "bold", 0), (nm "italic", 1), (nm "bold-italic", 2), (nm "script", 3), (nm "bold-script", 4),
    (nm "fraktur", 5), (nm "double-struck", 6), (nm "bold-fraktur", 7), (nm "sans-serif", 8),
    (nm "bold-sans-serif", 9), (nm "sans-serif-italic", 10), (nm "sans-serif-bold-italic", 11),
    (nm "monospace", 12) ]

/-- Documented fall-back styles (statement of C18): bold for bold-script and bold-fraktur Greek;
upright digits of the same weight for the italic styles. `(own style, table) ↦ fallback style`. -/
def fallback : List ((Nat × Nat) × Nat) :=
  [ ((4, 2), 0), ((7, 2), 0),          -- bold-script / bold-fraktur Greek -> bold
    ((2, 1), 0),                        -- bold-italic digits -> bold digits
    ((10, 1), 8),                       -- sans-serif-italic digits -> sans-serif digits
    ((11, 1), 9) ]                      -- sans-serif-bold-italic digits -> sans-serif bold digits

/-- UCD: `cp ↦ (base, style)` for styled letters/digits (Mathematical Alphanumeric Symbols block, packed; and the
Letterlike Symbols rows). -/
def ucdInfo (cp : Nat) : Option (Nat × Nat) :=
  if MC.Gen.Ucd.blockStart ≤ cp && cp < MC.Gen.Ucd.blockStart + MC.Gen.Ucd.blockLen then
    let f := (MC.Gen.Ucd.blockPacked >>> (32 * (cp - MC.Gen.Ucd.blockStart))) % 4294967296
    if f / 33554432 % 2 = 1 then some (f % 2097152, f / 2097152 % 16) else none
  else MC.Gen.Ucd.letterlike.lookup cp

/-- does UCD have a styled form of `base` in `style` (completeness domain: the block, or a Letterlike "hole"
with an ASCII base; the four double-struck Greek letters of the Letterlike block are deliberately outside it) -/
def ucdHas (base style : Nat) : Bool :=
  match MC.Gen.Ucd.byStyle[style]? with
  | some rows => rows.any (·.1 == base)
  | none => false

/-- which of the three tables (0 Latin, 1 digits, 2 Greek) a key belongs to; digamma keys count as Greek -/
def classOf (T : Tables) (c : Nat) : Nat :=
  match T.shiftAmounts.lookup c with
  | some (_, tbl) => tbl
  | none => 2

/-- keys on which a variant acts (table keys + digamma keys when the Greek block is the bold one) -/
def keysOf (T : Tables) (starts : Nat × Nat × Nat) : List Nat :=
  T.shiftAmounts.map (·.1) ++ (if starts.2.2 = T.digammaStart then T.digamma.map (·.1) else [])

/-- The C18 relation between a key `c`, the variant `name` and an observed result `r` (this is the oracle that is
also applied to the implementation's outputs):
 * changed  ⇒ `r` is the UCD styled form of exactly this letter, in the variant's style or the documented fallback;
 * unchanged ⇒ Unicode has no styled form in that style/fallback (or: plain italic Latin). -/
def resultOk (T : Tables) (name : List Nat) (c r : Nat) : Bool :=
  let tbl := classOf T c
  match variantStyle.lookup name with
  | some st =>
    if r == c then
      (st == 1 && tbl == 0) ||
        (!ucdHas c st && (match fallback.lookup (st, tbl) with | some fs => !ucdHas c fs | none => true))
    else
      match ucdInfo r with
      | some (base, rs) => base == c && (rs == st || fallback.lookup (st, tbl) == some rs)
      | none => false
  | none => false

def keyOk (T : Tables) (name : List Nat) (starts : Nat × Nat × Nat) (c : Nat) : Bool :=
  match shiftChar T starts c with
  | some r => resultOk T name c r
  | none => false

def allKeysOk (T : Tables) : Bool :=
  T.variants.all fun v => (keysOf T v.2).all fun c => keyOk T v.1 v.2 c

/-- failing (variant, char) pairs: the search used when the theorem stops checking -/
def failingKeys (T : Tables) : List (List Nat × Nat) :=
  T.variants.flatMap fun v => ((keysOf T v.2).filter fun c => !keyOk T v.1 v.2 c).map fun c => (v.1, c)

def validScalar (n : Nat) : Bool := n < 0x110000 && !(0xD800 ≤ n && n < 0xE000)

def latin (c : Nat) : Bool := (65 ≤ c && c ≤ 90) || (97 ≤ c && c ≤ 122)

/-- all keys (table keys and digamma keys) are ordinary, unstyled characters -/
def keysUnstyled (T : Tables) : Bool :=
  (T.shiftAmounts.map (·.1) ++ T.digamma.map (·.1)).all fun c => (ucdInfo c).isNone

end MC.Spec.Variant
