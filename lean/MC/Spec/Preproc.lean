import MC.Model.Preproc
/-! Specification vocabulary for C17 (entity table facts). -/
namespace MC.Spec.Preproc
open MC.Preproc

def hexVal (c : Nat) : Option Nat :=
  if 48 ≤ c && c ≤ 57 then some (c - 48)
  else if 65 ≤ c && c ≤ 70 then some (c - 55)
  else if 97 ≤ c && c ≤ 102 then some (c - 87)
  else none

/-- read hex digits up to `;` : value and rest -/
def readHex : Nat → Str → Option (Nat × Str)
  | acc, 59 :: rest => some (acc, rest)
  | acc, c :: cs => match hexVal c with | some d => readHex (acc * 16 + d) cs | none => none
  | _, [] => none

/-- What the XML parser makes of a replacement text: `&#xH…;` references expanded; `none` if the text contains a raw
`<`, or an `&` that does not start such a reference (i.e. the replacement is not XML-safe). -/
def resolveRefs : (fuel : Nat) → Str → Option Str
  | 0, _ => none
  | _, [] => some []
  | f+1, 38 :: 35 :: 120 :: cs =>
    match readHex 0 cs with
    | some (v, rest) => (resolveRefs f rest).map (v :: ·)
    | none => none
  | _, 38 :: _ => none
  | _, 60 :: _ => none
  | f+1, c :: cs => (resolveRefs f cs).map (c :: ·)

/-- entry check: the name is matched by the entity regex; the replacement is XML-safe and denotes what HTML5/MathML
define for that name (the W3C 2007 entity file writes four combining marks with a leading space; both accepted). -/
def nameMatched (cls : List (Nat × Nat)) (name : Str) : Bool := !name.isEmpty && name.all (inRanges cls)

def valueOk (v h : Str) : Bool :=
  match resolveRefs (v.length + 1) v with
  | some r => r == h || r == 32 :: h
  | none => false

def badNames (cls : List (Nat × Nat)) (tbl : List (Str × Str × Str)) : List Str :=
  (tbl.filter fun e => !nameMatched cls e.1).map (·.1)

def badValues (tbl : List (Str × Str × Str)) : List Str :=
  (tbl.filter fun e => !valueOk e.2.1 e.2.2).map (·.1)

end MC.Spec.Preproc
