import MC.Model.Xml
import MC.Gen.Ucd
/-!
Executable specifications (checkers) for C01, C02 and C09 on XML trees.
-/
namespace MC.Spec.Canon
open MC.Xml

def nameIs (n : Str) (x : String) : Bool := n = s x
def tokenNames : List Str := [s "mi", s "mn", s "mo", s "mtext", s "ms"]
def attr (attrs : List (Str × Str)) (k : String) : Option Str := (attrs.find? fun a => a.1 = s k).map (·.2)

/-! ## C01: visible content -/

def isWs (c : Nat) : Bool := (9 ≤ c && c ≤ 13) || c = 32 || c = 0x85 || c = 0xA0 || c = 0x1680 || (0x2000 ≤ c && c ≤ 0x200A) ||
  c = 0x2028 || c = 0x2029 || c = 0x202F || c = 0x205F || c = 0x3000 || c = 0x200B || c = 0x2060 || c = 0xFEFF

mutual
/-- all text below a node (embedded markup inside tokens is flattened; `mglyph` contributes its `alt`) -/
def allText : Node → Str
  | .text t => t
  | .elem n attrs kids => if nameIs n "mglyph" then (attr attrs "alt").getD [] else allTextL kids
def allTextL : List Node → Str
  | [] => []
  | k :: ks => allText k ++ allTextL ks
end

def isPre : Node → Bool
  | .elem n _ _ => n = s "mprescripts"
  | .text _ => false
def beforePre (kids : List Node) : List Node := kids.takeWhile (fun k => !isPre k)
def afterPre (kids : List Node) : List Node := (kids.dropWhile (fun k => !isPre k)).drop 1

/-- separators of mfenced: the i-th separator (last one repeats; white space in the attribute is ignored) -/
def fencedSep (seps : Str) (i : Nat) : Str :=
  let ss := seps.filter (fun c => !isWs c)
  match ss[i]? with
  | some c => [c]
  | none => if ss.isEmpty then [] else [44]     -- the library's (test-pinned: mfenced_with_separators) choice: ',' once the given separators run out

mutual
/-- visible token characters of an *input* tree, in document order -/
def visibleIn : Node → Str
  | .text _ => []                      -- text directly inside non-token elements is ignored (trim_element logs and drops it)
  | .elem n attrs kids =>
    if tokenNames.contains n then allTextL kids
    else if nameIs n "mphantom" || nameIs n "annotation" || nameIs n "annotation-xml" || nameIs n "mspace" || nameIs n "malignmark" ||
            nameIs n "maligngroup" || nameIs n "none" || nameIs n "mprescripts" || nameIs n "mglyph" then []
    else if nameIs n "semantics" then visibleSem kids
    else if nameIs n "mfenced" then
      (attr attrs "open").getD [40] ++ visibleFenced ((attr attrs "separators").getD [44]) 0 kids ++ (attr attrs "close").getD [41]
    else if nameIs n "mmultiscripts" then
      -- rendering order: prescripts, base, postscripts (the prescripts follow <mprescripts/> in the document)
      visibleMs false true kids ++ visibleMs false false kids
    else visibleInL kids
def visibleInL : List Node → Str
  | [] => []
  | k :: ks => visibleIn k ++ visibleInL ks
/-- children of mmultiscripts before (`wantPre = false`) or after (`wantPre = true`) the `mprescripts` child -/
def visibleMs (seenPre wantPre : Bool) : List Node → Str
  | [] => []
  | k :: ks => if isPre k then visibleMs true wantPre ks
               else (if seenPre == wantPre then visibleIn k else []) ++ visibleMs seenPre wantPre ks
/-- the presentation child of `semantics`: the first child that is not an annotation -/
def visibleSem : List Node → Str
  | [] => []
  | .elem m a ks :: rest => if nameIs m "annotation" || nameIs m "annotation-xml" then visibleSem rest else visibleIn (.elem m a ks)
  | .text _ :: rest => visibleSem rest
def visibleFenced (seps : Str) : Nat → List Node → Str
  | _, [] => []
  | _, [k] => visibleIn k
  | i, k :: ks => visibleIn k ++ fencedSep seps i ++ visibleFenced seps (i + 1) ks
end

/-- base letter of a mathematical alphanumeric (Mathematical Alphanumeric Symbols block and the Letterlike holes) -/
def mathBase (c : Nat) : Nat :=
  if MC.Gen.Ucd.blockStart ≤ c && c < MC.Gen.Ucd.blockStart + MC.Gen.Ucd.blockLen then
    let f := (MC.Gen.Ucd.blockPacked >>> (32 * (c - MC.Gen.Ucd.blockStart))) % 4294967296
    if f / 33554432 % 2 = 1 then f % 2097152 else c
  else match MC.Gen.Ucd.letterlike.lookup c with
    | some (b, _) => b
    | none => c

/-- `expand`: a character-to-string homomorphism undoing the documented normalizations (DESIGN §4 C01) -/
def expandChar (c : Nat) : Str :=
  if isWs c || (0x2061 ≤ c && c ≤ 0x2064) then []
  else if c = 0x2212 || c = 0x2010 || c = 0x2011 || c = 0x2012 || c = 0x2013 || c = 0x5F || c = 0xAF || c = 0x2C9 || c = 0x304 || c = 0x305 ||
          c = 0x332 || c = 0x203E then [45]                                  -- minus / hyphens / bars -> '-'
  else if c = 0x2014 then [45, 45] else if c = 0x2015 then [45, 45, 45]      -- — ―
  else if c = 0x2032 || c = 0x2019 || c = 0x2BC || c = 0x60 || c = 0xB4 || c = 0x2035 then [39]   -- ′ ’ ʼ ` ´ ‵ -> '
  else if c = 0x2033 || c = 0x22 || c = 0x201D || c = 0x2036 then [39, 39]
  else if c = 0x2034 || c = 0x2037 then [39, 39, 39] else if c = 0x2057 then [39, 39, 39, 39]
  else if c = 0x2026 || c = 0x22EF then [46, 46, 46] else if c = 0x2025 then [46, 46]              -- … ⋯ ‥
  else if c = 0x2016 || c = 0x2225 || c = 0x1C1 then [124, 124] else if c = 0x2223 then [124]     -- ‖ ∥ ǁ ∣
  else if c = 0x2237 then [58, 58] else if c = 0x2236 then [58]                                   -- ∷ ∶
  else if c = 0x2DC || c = 0x223C || c = 0x303 then [126]                                         -- ˜ ∼ ̃ -> ~
  else if c = 0x2C6 || c = 0x302 then [94]                                                        -- ˆ ̂ -> ^
  else if c = 0x307 || c = 0x2D9 then [0x2D9] else if c = 0x308 then [0xA8]
  else if c = 0xBA || c = 0x2092 || c = 0x20D8 || c = 0x2218 then [0xB0]                          -- circle-like -> degree
  else if c = 0x22C5 || c = 0xB7 then [0xB7]
  else [mathBase c]

def expand (t : Str) : Str := t.flatMap expandChar

/-- `collapse`: a run of hyphens is one class (`--`/`—`, `---`/`----`/`―`, and every bar-like accent is written `¯` in accent position) -/
def collapse : Str → Str
  | 45 :: 45 :: r => collapse (45 :: r)
  | c :: r => c :: collapse r
  | [] => []

def norm (t : Str) : Str := collapse (expand t)

mutual
/-- visible characters of an *output* (canonical) tree -/
def visibleOut : Node → Str
  | .text t => t
  | .elem n _ kids => if n = s "mmultiscripts" then visibleOutMs false true kids ++ visibleOutMs false false kids else visibleOutL kids
def visibleOutL : List Node → Str
  | [] => []
  | k :: ks => visibleOut k ++ visibleOutL ks
def visibleOutMs (seenPre wantPre : Bool) : List Node → Str
  | [] => []
  | k :: ks => if isPre k then visibleOutMs true wantPre ks
               else (if seenPre == wantPre then visibleOut k else []) ++ visibleOutMs seenPre wantPre ks
end

def conserves (inp out : Node) : Bool := norm (visibleIn inp) == norm (visibleOut out)

/-! ## C02: well-formed canonical MathML -/

def arity2 : List Str := [s "mfrac", s "mroot", s "msub", s "msup", s "munder", s "mover"]
def arity3 : List Str := [s "msubsup", s "munderover"]
def oneChild : List Str := [s "math", s "msqrt", s "merror", s "mpadded", s "mphantom", s "menclose", s "mtd", s "mstyle"]
def removed : List Str := [s "mfenced", s "mstyle", s "mpadded", s "mphantom", s "mspace", s "semantics", s "annotation", s "annotation-xml"]

def isElem : Node → Bool
  | .elem _ _ _ => true
  | .text _ => false

mutual
def wfViolations : Node → List String
  | .text _ => []
  | .elem n attrs kids =>
    let ek := kids.filter isElem
    let k := ek.length
    let v1 := if arity2.contains n && k ≠ 2 then ["arity: " ++ String.ofList (n.map Char.ofNat) ++ " does not have 2 children"] else []
    let v2 := if arity3.contains n && k ≠ 3 then ["arity: " ++ String.ofList (n.map Char.ofNat) ++ " does not have 3 children"] else []
    let v3 := if oneChild.contains n && k ≠ 1 && !(nameIs n "mtd" && k = 0) then ["arity: " ++ String.ofList (n.map Char.ofNat) ++ " does not have exactly one child"] else []
    let v4 := if removed.contains n then ["wrapper not removed: " ++ String.ofList (n.map Char.ofNat)] else []
    let v5 := if tokenNames.contains n && (allTextL kids).isEmpty then ["empty token " ++ String.ofList (n.map Char.ofNat)] else []
    let v6 := if nameIs n "mrow" && k = 1 && (attr attrs "intent").isNone then ["mrow with exactly one child and no intent"]
              else if nameIs n "mrow" && k = 0 && (attr attrs "intent").isNone && (attr attrs "data-empty-in-2D").isNone then ["empty mrow that is not a marked placeholder"] else []
    let v7 := if nameIs n "mmultiscripts" then
        (let names := ek.map fun e => match e with | .elem m _ _ => m | .text _ => []
         let pre := names.findIdx? (· = s "mprescripts")
         match pre with
         | none => if k % 2 = 1 then [] else ["mmultiscripts: scripts are not paired"]
         | some i => if i % 2 = 1 && (k - i - 1) % 2 = 0 && (names.filter (· = s "mprescripts")).length = 1 then [] else ["mmultiscripts: scripts are not paired around mprescripts"])
      else []
    v1 ++ v2 ++ v3 ++ v4 ++ v5 ++ v6 ++ v7 ++ wfViolationsL kids
def wfViolationsL : List Node → List String
  | [] => []
  | k :: ks => wfViolations k ++ wfViolationsL ks
end

/-! ## C09: ids -/

mutual
def allIds : Node → List (Option Str)
  | .text _ => []
  | .elem _ attrs kids => idOf attrs :: allIdsL kids
def allIdsL : List Node → List (Option Str)
  | [] => []
  | k :: ks => allIds k ++ allIdsL ks
end

def dupes : List Str → List Str
  | [] => []
  | x :: xs => (if xs.contains x then [x] else []) ++ dupes xs

def idViolations (out : Node) : List String :=
  let ids := allIds out
  (if ids.any (·.isNone) then ["an element has no id"] else []) ++
  (match dupes (ids.filterMap id) with | [] => [] | d :: _ => ["duplicate id " ++ String.ofList (d.map Char.ofNat)])

end MC.Spec.Canon
