import MC.Model.Tts
/-! Specification vocabulary for C13. -/
namespace MC.Spec.Tts
open MC.Tts

def nm (s : String) : Str := s.toList.map Char.toNat

/-- element vocabulary of the two engines (SSML 1.1; SAPI 5 XML TTS) as far as MathCAT uses it -/
def vocab : Nat → List Str
  | 1 => [nm "break", nm "prosody", nm "audio", nm "voice", nm "say-as", nm "phoneme", nm "mark"]
  | 2 => [nm "silence", nm "rate", nm "volume", nm "pitch", nm "voice", nm "spell", nm "pron", nm "bookmark"]
  | _ => []

/-- the pair check: the start template is one syntactically valid tag of the engine's vocabulary (followed by tag-free
text), and the end template closes exactly that element (or is empty for a self-closing tag / no tag) -/
def pairOk (r : Nat × Nat × Str × Str) : Bool :=
  let (eng, _, start, end_) := r
  if start.isEmpty then end_.isEmpty else
  match parseTag start with
  | some (.op n, rest) => (vocab eng).contains n && !rest.contains 60 && !rest.contains 62 && end_ == [60, 47] ++ n ++ [62]
  | some (.empty n, rest) => (vocab eng).contains n && rest.isEmpty && end_.isEmpty
  | _ => false

def mergeOk (t : Str) : Bool :=
  match parseTag t with
  | some (.empty _, rest) => rest.isEmpty
  | _ => false

def badPairs : List (Nat × Nat) := (MC.Gen.Tts.templates.filter fun r => !pairOk r).map fun r => (r.1, r.2.1)

end MC.Spec.Tts
