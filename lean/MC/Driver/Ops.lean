import Lean.Data.Json
import MC.Spec.Variant
import MC.Model.Preproc
import MC.Model.Prefs
import MC.Model.PrefFiles
import MC.Model.Nav
import MC.Spec.Tts
import MC.Model.Intent
import MC.Model.Highlight
import MC.Spec.BrailleFinal
import MC.Model.Numbers
import MC.Spec.Rows
import MC.Spec.Canon
import MC.Model.Speech
import MC.Model.TextCodes
import MC.Model.Fallback
import MC.Model.Loader
import MC.Model.Clean
open Lean

namespace MC.Driver

def okJ (v : Json) : Json := Json.mkObj [("r", "ok"), ("v", v)]
def errJ (kind msg : String) : Json := Json.mkObj [("r", "err"), ("kind", kind), ("msg", msg)]
def panicJ (site : String) : Json := Json.mkObj [("r", "panic"), ("at", site)]

def getStr (j : Json) (k : String) : String := (j.getObjValAs? String k).toOption.getD ""
def getNat (j : Json) (k : String) : Nat := (j.getObjValAs? Nat k).toOption.getD 0
def getStr? (j : Json) (k : String) : Option String := (j.getObjValAs? String k).toOption

def cps (s : String) : List Nat := s.toList.map Char.toNat
def ofCps (l : List Nat) : String := String.ofList (l.map Char.ofNat)
def natsJ (l : List Nat) : Json := Json.arr (l.map (fun (n : Nat) => toJson n)).toArray

/-- C18 ops -/
def handleVariant (op : String) (req : Json) : Option Json :=
  match op with
  | "plane1" =>
    let v := (getStr? req "variant").map cps
    let text := cps (getStr req "text")
    some <| match MC.Variant.plane1 MC.Variant.tables v text with
      | some r => okJ (ofCps r)
      | none => panicJ "shift_text:index"
  | "c18_failing" =>
    some <| okJ <| Json.arr <| ((MC.Spec.Variant.failingKeys MC.Variant.tables).map fun (n, c) =>
      Json.arr #[toJson (ofCps n), toJson c]).toArray
  | "c18_result_ok" =>
    some <| okJ <| toJson <| MC.Spec.Variant.resultOk MC.Variant.tables (cps (getStr req "variant")) (getNat req "c") (getNat req "r")
  | "c18_keys" =>
    some <| okJ <| Json.arr <| (MC.Variant.tables.variants.map fun v =>
      Json.arr #[toJson (ofCps v.1), natsJ (MC.Spec.Variant.keysOf MC.Variant.tables v.2)]).toArray
  | _ => none

/-- C17 ops -/
def handlePreproc (op : String) (req : Json) : Option Json :=
  match op with
  | "preproc" =>
    some <| match MC.Preproc.preprocess MC.Preproc.config (cps (getStr req "text")) with
      | .ok r => okJ (ofCps r)
      | .error u => Json.mkObj [("r", "err"), ("kind", "unknown-entity"), ("name", ofCps u)]
  | _ => none

/-- C12 ops: a whole op sequence is replayed from the initial state in one request -/
def prefsStep (s : MC.Prefs.PState) (op : Json) : MC.Prefs.PState × Json :=
  let a := op.getArr?.toOption.getD #[]
  let str (i : Nat) : String := ((a[i]?.getD Json.null).getStr?).toOption.getD ""
  match str 0 with
  | "get" =>
    match MC.Prefs.getPreference s (str 1) with
    | .ok v => (s, okJ v)
    | .err k => (s, errJ k "")
    | .panic p => (s, panicJ p)
  | "set" =>
    let fl : Option String := ((a[3]?.getD Json.null).getStr?).toOption
    let filesOk : Bool := ((a[4]?.getD (Json.bool true)).getBool?).toOption.getD true
    let E : MC.Prefs.Env := { filesOk := fun _ _ => filesOk, normFloat := fun _ => fl }
    match MC.Prefs.setPreference E s (str 1) (str 2) with
    | .ok s' => (s', okJ Json.null)
    | .err k => (s, errJ k "")
    | .panic p => (s, panicJ p)
  | "init" => (MC.Prefs.initState, okJ Json.null)
  | "fresh" => (MC.Prefs.uninit, okJ Json.null)
  | _ => (s, errJ "bad-op" "prefs")

def handlePrefs (op : String) (req : Json) : Option Json :=
  match op with
  | "prefs_run" =>
    let ops := ((req.getObjVal? "ops").toOption.getD (Json.arr #[])).getArr?.toOption.getD #[]
    let (_, outs) := ops.foldl (fun (acc : MC.Prefs.PState × Array Json) o =>
      let (s', r) := prefsStep acc.1 o; (s', acc.2.push r)) (MC.Prefs.uninit, #[])
    some (okJ (Json.arr outs))
  | "prefs_files" =>
    -- a history of [name, value] requests from the initial state; answer: the language of the selected rule files and of the style file
    let ops := (((req.getObjVal? "ops").toOption.getD (Json.arr #[])).getArr?.toOption.getD #[]).toList.map fun o =>
      let a := o.getArr?.toOption.getD #[]
      (((a[0]?.getD Json.null).getStr?).toOption.getD "", ((a[1]?.getD Json.null).getStr?).toOption.getD "")
    let E : MC.Prefs.Env := { filesOk := fun _ _ => true, normFloat := fun x => some x }
    let r := MC.Prefs.runOpsF E (MC.Prefs.initState, MC.Prefs.initFiles) ops
    some <| okJ <| Json.arr #[toJson r.2.filesLang, toJson r.2.styleLang]
  | "prefs_names" =>
    let s := MC.Prefs.initState
    some <| okJ <| Json.arr <| ((s.user ++ s.api).map fun (k, v) =>
      Json.arr #[toJson k, toJson (match v with | .str _ => "str" | .bool _ => "bool" | .num _ => "num"), toJson v.render]).toArray
  | _ => none

/-- C11 ops -/
def posOfJson (j : Json) : MC.Nav.Pos :=
  let a := j.getArr?.toOption.getD #[]
  ⟨((a[0]?.getD Json.null).getStr?).toOption.getD "", ((a[1]?.getD Json.null).getNat?).toOption.getD 0⟩

def posToJson (p : MC.Nav.Pos) : Json := Json.arr #[toJson p.id, toJson p.off]

def arrOf (j : Json) (k : String) : Array Json := ((j.getObjVal? k).toOption.getD (Json.arr #[])).getArr?.toOption.getD #[]
def boolOf (j : Json) (k : String) : Bool := ((j.getObjVal? k).toOption.getD (Json.bool false)).getBool?.toOption.getD false

/-- hook format: stacks bottom first; model: top first -/
def navOfJson (j : Json) : MC.Nav.NavState :=
  { positions := ((arrOf j "positions").toList.map posOfJson).reverse,
    commands := ((arrOf j "commands").toList.map fun c => c.getStr?.toOption.getD "").reverse,
    markers := (arrOf j "markers").toList.map posOfJson,
    mode := getStr j "mode", overview := boolOf j "overview" }

def navToJson (s : MC.Nav.NavState) : Json :=
  Json.mkObj [("positions", Json.arr (s.positions.reverse.map posToJson).toArray),
              ("commands", Json.arr (s.commands.reverse.map fun c => toJson c).toArray),
              ("markers", Json.arr (s.markers.map posToJson).toArray),
              ("mode", toJson s.mode), ("overview", toJson s.overview)]

def tryOfJson (j : Json) : MC.Nav.Try :=
  { ruleErr := boolOf j "rule_err", node := some ⟨getStr j "node", getNat j "off"⟩, mode := getStr j "mode",
    overview := boolOf j "overview", inTree := boolOf j "in_tree", speak := boolOf j "speak",
    speakErr := boolOf j "speak_err", speechEmpty := boolOf j "speech_empty" }

def navOutcome (o : MC.Nav.Outcome MC.Nav.NavState) : Json :=
  match o with
  | .ok s => okJ (navToJson s)
  | .err k => errJ k ""
  | .panic p => panicJ p

def handleNav (op : String) (req : Json) : Option Json :=
  match op with
  | "nav_init" => some (okJ (navToJson MC.Nav.init))
  | "nav_new_mathml" => some (okJ (navToJson (MC.Nav.resetForNewMathml (navOfJson ((req.getObjVal? "state").toOption.getD Json.null)))))
  | "nav_set_node" =>
    let s := navOfJson ((req.getObjVal? "state").toOption.getD Json.null)
    some (navOutcome (MC.Nav.setNode s (getStr req "id") (getNat req "off") (boolOf req "found") (boolOf req "leaf")))
  | "nav_cmd" =>
    let s := navOfJson ((req.getObjVal? "state").toOption.getD Json.null)
    let ids := (arrOf req "ids").toList.map fun c => c.getStr?.toOption.getD ""
    let tries := (arrOf req "tries").toList.map tryOfJson
    some (navOutcome (MC.Nav.doCommand (getStr req "root") (fun i => ids.contains i) (getStr req "cmd") tries s))
  | _ => none

/-- C13 ops -/
def handleTts (op : String) (_req : Json) : Option Json :=
  match op with
  | "c13_bad_pairs" => some <| okJ <| Json.arr <| (MC.Spec.Tts.badPairs.map fun (e, c) => Json.arr #[toJson e, toJson c]).toArray
  | "c13_templates" => some <| okJ <| Json.arr <| (MC.Gen.Tts.templates.map fun (e, c, s, t) =>
      Json.arr #[toJson e, toJson c, toJson (ofCps s), toJson (ofCps t)]).toArray
  | _ => none

/-- C19 ops -/
partial def itreeJ : MC.Intent.ITree → Json
  | .leaf isNum text props => Json.mkObj [("k", "leaf"), ("num", toJson isNum), ("t", toJson (ofCps text)), ("p", toJson (ofCps props))]
  | .ref n v props => Json.mkObj [("k", "ref"), ("name", toJson (ofCps n)), ("p", toJson (ofCps props)),
      ("v", match v with | .leaf t => toJson (ofCps t) | .empty => toJson "<empty>" | .other => toJson "<other>")]
  | .self props => Json.mkObj [("k", "self"), ("p", toJson (ofCps props))]
  | .elem n props kids => Json.mkObj [("k", "elem"), ("n", toJson (ofCps n)), ("p", toJson (ofCps props)), ("c", Json.arr (kids.map itreeJ).toArray)]
  | .refHead n props kids => Json.mkObj [("k", "refhead"), ("name", toJson (ofCps n)), ("p", toJson (ofCps props)), ("c", Json.arr (kids.map itreeJ).toArray)]
  | .apply h kids => Json.mkObj [("k", "apply"), ("h", itreeJ h), ("c", Json.arr (kids.map itreeJ).toArray)]

def handleIntent (op : String) (req : Json) : Option Json :=
  match op with
  | "intent_parse" =>
    let args := arrOf req "args"     -- [[name, kind, text]] kind: leaf|empty|other|error
    let look (n : MC.Intent.Str) : Except MC.Intent.Err (Option MC.Intent.RefVal) :=
      match args.toList.find? (fun a => cps (((a.getArr?.toOption.getD #[])[0]?.getD Json.null).getStr?.toOption.getD "") == n) with
      | none => .ok none
      | some a =>
        let arr := a.getArr?.toOption.getD #[]
        let kind := ((arr[1]?.getD Json.null).getStr?).toOption.getD ""
        let text := ((arr[2]?.getD Json.null).getStr?).toOption.getD ""
        if kind == "leaf" then .ok (some (.leaf (cps text))) else if kind == "empty" then .ok (some .empty)
        else if kind == "error" then .error .rules else .ok (some .other)
    let E : MC.Intent.Env := { arg := look, selfOk := true }
    some <| match MC.Intent.parseIntent E (cps (getStr req "intent")) with
      | .ok t => okJ (itreeJ t)
      | .error (.syntax w) => errJ "syntax" w
      | .error (.argNotFound n) => errJ "arg-not-found" (ofCps n)
      | .error .rules => errJ "rules" ""
      | .error .fuel => errJ "fuel" ""
  | _ => none

/-- C20 ops -/
def handleHighlight (op : String) (req : Json) : Option Json :=
  match op with
  | "highlight" =>
    let s := cps (getStr req "s")
    some <| match MC.Highlight.brailleResult (getNat req "code") (getStr req "style") ((req.getObjValAs? Bool "found").toOption.getD true) s with
      | some (r, a, b) => okJ (Json.arr #[toJson (ofCps r), toJson a, toJson b, toJson (MC.Highlight.allCells s)])
      | none => panicJ "braille.rs:highlight_first_indicator"
  | _ => none

/-- C07 ops -/
def handleBrailleFinal (op : String) (req : Json) : Option Json :=
  match op with
  | "c07_status" =>
    some <| okJ <| Json.arr <| (MC.Spec.BrailleFinal.codes.map fun c => Json.mkObj [
      ("code", toJson c), ("values_ok", toJson (MC.Spec.BrailleFinal.valuesOk c)),
      ("leaking_literals", natsJ (MC.Spec.BrailleFinal.leakingLiterals c)),
      ("eight_dot_literals", natsJ ((MC.Gen.BrailleTabs.literalChars.getD c []).filter fun x => 0x28C0 ≤ x && x ≤ 0x28FF)),
      ("unmatched_keys", Json.arr ((MC.Spec.BrailleFinal.unmatchedKeys c).map fun k => toJson (ofCps k)).toArray)]).toArray
  | "c07_final" =>
    some <| okJ <| toJson <| ofCps (MC.BrailleFinal.finalPhase (getNat req "code") (fun _ => cps (getStr req "pref")) (cps (getStr req "s")))
  | _ => none

/-- C16 ops -/
def handleNumbers (op : String) (req : Json) : Option Json :=
  let S : MC.Numbers.Seps := { block := cps (getStr req "block"), dec := cps (getStr req "decimal") }
  match op with
  | "numpat" =>
    let s := cps (getStr req "text")
    some <| okJ <| Json.arr #[toJson (MC.Numbers.hasAny S.dec s), toJson (MC.Numbers.hasAny S.block s), toJson (MC.Numbers.digitOnly S s),
      toJson (MC.Numbers.blockPattern 3 S s), toJson (MC.Numbers.blockPattern 5 S s), toJson (MC.Numbers.hex4 (s.length + 1) s), toJson (MC.Numbers.block1 s)]
  | "merge_row" =>
    let toks : List MC.Numbers.Tok := (arrOf req "tokens").toList.map fun j =>
      let a := j.getArr?.toOption.getD #[]
      ⟨((a[0]?.getD Json.null).getNat?).toOption.getD 3, cps (((a[1]?.getD Json.null).getStr?).toOption.getD "")⟩
    some <| okJ <| Json.arr <| ((MC.Numbers.mergeRow S toks).map fun t => Json.arr #[toJson t.kind, toJson (ofCps t.text)]).toArray
  | _ => none

/-- C03 ops -/
partial def rowTreeJ : MC.Rows.T → Json
  | .operand t => toJson (ofCps t)
  | .op t _ => toJson (ofCps t)
  | .row ks => Json.arr (ks.map rowTreeJ).toArray

partial def rowTreeOfJson (isOp : String → Bool) : Json → MC.Rows.T
  | .arr a => .row (a.toList.map (rowTreeOfJson isOp))
  | j => let s := j.getStr?.toOption.getD ""; if isOp s then .op (cps s) false else .operand (cps s)

def rowToks (req : Json) : List MC.Rows.Tok :=
  (arrOf req "tokens").toList.map fun j =>
    let a := j.getArr?.toOption.getD #[]
    let kind := ((a[0]?.getD Json.null).getStr?).toOption.getD ""
    let text := cps (((a[1]?.getD Json.null).getStr?).toOption.getD "")
    if kind == "mo" then .mo text else .operand text

def handleRows (op : String) (req : Json) : Option Json :=
  match op with
  | "parse_row" =>
    some <| match MC.Rows.parseRow (rowToks req) with
      | .ok t => okJ (rowTreeJ t)
      | .panic p => panicJ p
  | "check_bracketed" =>
    -- tree: nested arrays of strings; ops: the strings that are `mo` leaves
    let ops := (arrOf req "ops").toList.map fun j => j.getStr?.toOption.getD ""
    let t := rowTreeOfJson (fun s => ops.contains s) ((req.getObjVal? "tree").toOption.getD Json.null)
    some <| okJ <| Json.arr ((MC.Spec.Rows.violations t).map fun v => toJson v).toArray
  | _ => none

/-- C01 / C02 / C09 ops -/
partial def nodeOfJson : Json → MC.Xml.Node
  | .str t => .text (cps t)
  | j =>
    let attrs := (arrOf j "a").toList.map fun p =>
      let a := p.getArr?.toOption.getD #[]
      (cps (((a[0]?.getD Json.null).getStr?).toOption.getD ""), cps (((a[1]?.getD Json.null).getStr?).toOption.getD ""))
    .elem (cps (getStr j "n")) attrs ((arrOf j "c").toList.map nodeOfJson)

def handleCanon (op : String) (req : Json) : Option Json :=
  match op with
  | "canon_check" =>
    let inp := nodeOfJson ((req.getObjVal? "inp").toOption.getD Json.null)
    let out := nodeOfJson ((req.getObjVal? "out").toOption.getD Json.null)
    let vi := MC.Spec.Canon.norm (MC.Spec.Canon.visibleIn inp)
    let vo := MC.Spec.Canon.norm (MC.Spec.Canon.visibleOut out)
    some <| okJ <| Json.mkObj [("conserves", toJson (vi == vo)), ("vis_in", toJson (ofCps vi)), ("vis_out", toJson (ofCps vo)),
      ("wf", Json.arr ((MC.Spec.Canon.wfViolations out).map fun v => toJson v).toArray),
      ("ids", Json.arr ((MC.Spec.Canon.idViolations out).map fun v => toJson v).toArray)]
  | "escape" => some <| okJ <| toJson (ofCps (MC.Xml.escape (cps (getStr req "text"))))
  | "escape_attr" => some <| okJ <| toJson (ofCps (MC.Xml.escapeAttr (cps (getStr req "text"))))
  | "norm_text" => some <| okJ <| toJson (ofCps (MC.Spec.Canon.norm (cps (getStr req "text"))))
  | "add_ids" =>
    let t := nodeOfJson ((req.getObjVal? "tree").toOption.getD Json.null)
    let r := (MC.Xml.addIds (cps (getStr req "prefix")) 0 [] t).1
    some <| okJ <| Json.arr ((MC.Spec.Canon.allIds r).map fun i => match i with | some x => toJson (ofCps x) | none => Json.null).toArray
  | _ => none

/-- names and token text of a tree (attributes dropped except `intent`): what the clean-up correspondence compares -/
partial def shapeJ : MC.Xml.Node → Json
  | .text t => toJson (ofCps t)
  | .elem n attrs kids =>
    Json.mkObj [("n", toJson (ofCps n)), ("i", toJson (MC.Clean.hasIntent attrs)),
      ("id", match MC.Xml.idOf attrs with | some i => toJson (ofCps i) | none => Json.null), ("c", Json.arr (kids.map shapeJ).toArray)]

/-- clean-up skeleton (C01 / C02): `clean` = the model's `clean_mathml` on a whole `<math>` tree -/
def handleClean (op : String) (req : Json) : Option Json :=
  match op with
  | "clean" =>
    let inp := nodeOfJson ((req.getObjVal? "inp").toOption.getD Json.null)
    some <| okJ <| Json.mkObj [
      ("vocab", toJson (MC.Clean.vocabOk inp)),
      ("restarts", toJson (MC.Clean.restarts (MC.Clean.trim inp))),
      ("out", match MC.Clean.cleanMath inp with | some r => shapeJ r | none => Json.null),
      ("shape_in", shapeJ inp)]
  | "shape" => some <| okJ <| shapeJ (nodeOfJson ((req.getObjVal? "inp").toOption.getD Json.null))
  | _ => none

def handleSpeech (op : String) (req : Json) : Option Json :=
  match op with
  | "speech_join" =>
    let pf := ((req.getObjVal? "pf").toOption.bind (·.getNat?.toOption)).getD 100
    let xs := (arrOf req "inputs").toList.map fun j => cps (j.getStr?.toOption.getD "")
    some <| okJ <| Json.mkObj [("out", toJson (ofCps (MC.Speech.joinArray pf xs))),
      ("panic", toJson (xs.any MC.Speech.wouldPanic)),
      ("auto_ok", toJson (xs.all MC.Speech.autoOkB)),
      ("front_clean", toJson (xs.all (MC.Speech.frontCleanB MC.Speech.isDigit))),
      ("dropped", Json.arr ((List.zip xs (MC.Speech.dedupe xs)).filterMap (fun p => if p.1 = p.2 then none else some (Json.arr #[toJson (ofCps p.1), toJson (ofCps p.2)]))).toArray)]
  | "speech_final" => some <| okJ <| toJson (ofCps (MC.Speech.finalize (cps (getStr req "s"))))
  | _ => none

def handleTextCodes (op : String) (req : Json) : Option Json :=
  match op with
  | "latex_cleanup" => some <| okJ <| toJson (ofCps (MC.TextCodes.latexCleanup (cps (getStr req "s"))))
  | "asciimath_cleanup" => some <| okJ <| toJson (ofCps (MC.TextCodes.asciimathCleanup (cps (getStr req "extra")) (cps (getStr req "s"))))
  | _ => none

def pathsOfJson (j : Json) : List (List String) :=
  (j.getArr?.toOption.getD #[]).toList.map fun p => (p.getArr?.toOption.getD #[]).toList.map fun c => c.getStr?.toOption.getD ""

def resJ (r : MC.Fallback.Res MC.Fallback.Path) : Json :=
  match r with
  | .ok p => toJson ("/".intercalate p)
  | .err => Json.null

def handleFallback (op : String) (req : Json) : Option Json :=
  match op with
  | "resolve_files" =>
    let fs : MC.Fallback.FS := { dirs := pathsOfJson ((req.getObjVal? "dirs").toOption.getD Json.null), files := pathsOfJson ((req.getObjVal? "files").toOption.getD Json.null) }
    let lang := ((getStr req "lang").splitOn "-").filter (· ≠ "")
    let sp := MC.Fallback.speechFiles fs lang (getStr req "style")
    let br := MC.Fallback.brailleFiles fs (((getStr req "code").splitOn "-").filter (· ≠ "")) (getStr req "code")
    let styleAlts := (MC.Fallback.getLanguageDir fs "Languages" lang (some ["en"]))
    some <| okJ <| Json.mkObj [("files", Json.arr ((sp ++ br).map fun (n, r) => Json.arr #[toJson n, resJ r]).toArray),
      ("lang_dir", resJ styleAlts)]
  | _ => none

def pairsOfJson (j : Json) : List (Nat × Nat) :=
  (j.getArr?.toOption.getD #[]).toList.map fun p =>
    let a := p.getArr?.toOption.getD #[]
    (((a[0]?.getD Json.null).getNat?).toOption.getD 0, ((a[1]?.getD Json.null).getNat?).toOption.getD 0)

def pairsToJson (l : List (Nat × Nat)) : Json := Json.arr (l.map fun (a, b) => Json.arr #[toJson a, toJson b]).toArray

def lookupD (l : List (Nat × Nat)) (k d : Nat) : Nat := match l.lookup k with | some v => v | none => d

def handleLoader (op : String) (req : Json) : Option Json :=
  match op with
  | "loader_refresh" =>
    let fsj := (req.getObjVal? "fs").toOption.getD Json.null
    let mt := pairsOfJson ((fsj.getObjVal? "mtime").toOption.getD Json.null)
    let ct := pairsOfJson ((fsj.getObjVal? "content").toOption.getD Json.null)
    let bad := ((fsj.getObjVal? "bad").toOption.getD Json.null).getArr?.toOption.getD #[] |>.toList.map fun j => j.getNat?.toOption.getD 0
    let incl : List (Nat × List Nat) := (((fsj.getObjVal? "incl").toOption.getD Json.null).getArr?.toOption.getD #[]).toList.map fun p =>
      let a := p.getArr?.toOption.getD #[]
      (((a[0]?.getD Json.null).getNat?).toOption.getD 0, ((a[1]?.getD Json.null).getArr?.toOption.getD #[]).toList.map fun j => j.getNat?.toOption.getD 0)
    let fs : MC.Loader.FS := { content := fun p => lookupD ct p 0, mtime := fun p => lookupD mt p 0, good := fun p => !bad.contains p,
                               incl := fun p => match incl.lookup p with | some l => l | none => [p] }
    let cj := (req.getObjVal? "cell").toOption.getD Json.null
    let c : MC.Loader.Cell := ⟨pairsOfJson ((cj.getObjVal? "files").toOption.getD Json.null), pairsOfJson ((cj.getObjVal? "data").toOption.getD Json.null)⟩
    let k : MC.Loader.Kind := match getStr req "kind" with | "rules" => .rules | "uniShort" => .uniShort | "defs" => .defs | _ => .uniFull
    let pref := ((req.getObjVal? "pref").toOption.bind (·.getNat?.toOption)).getD 0
    let ignore := ((req.getObjVal? "ignore").toOption.bind (·.getBool?.toOption)).getD true
    let needs := MC.Loader.needsLoad k c pref ignore fs
    let r := MC.Loader.refresh k c pref ignore fs
    some <| okJ <| Json.mkObj [("cell", Json.mkObj [("files", pairsToJson r.1.files), ("data", pairsToJson r.1.data)]), ("ok", toJson r.2), ("needs", toJson needs)]
  | _ => none

def handlers : List (String → Json → Option Json) := [handleVariant, handlePreproc, handlePrefs, handleNav, handleTts, handleIntent, handleHighlight, handleBrailleFinal, handleNumbers, handleRows, handleCanon, handleSpeech, handleTextCodes, handleFallback, handleLoader, handleClean]

def handle (req : Json) : Json :=
  let op := getStr req "op"
  match handlers.findSome? (fun h => h op req) with
  | some r => r
  | none => errJ "bad-op" s!"mcmodel: unknown op '{op}'"

end MC.Driver
