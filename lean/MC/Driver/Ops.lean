import Lean.Data.Json
import MC.Spec.Variant
import MC.Model.Preproc
open Lean

namespace MC.Driver

def okJ (v : Json) : Json := Json.mkObj [("r", "ok"), ("v", v)]
def errJ (kind msg : String) : Json := Json.mkObj [("r", "err"), ("kind", kind), ("msg", msg)]
def panicJ (site : String) : Json := Json.mkObj [("r", "panic"), ("at", site)]

def getStr (j : Json) (k : String) : String := (j.getObjValAs? String k).toOption.getD ""
def getNat (j : Json) (k : String) : Nat := (j.getObjValAs? Nat k).toOption.getD 0
def getStr? (j : Json) (k : String) : Option String := (j.getObjValAs? String k).toOption

def cps (s : String) : List Nat := s.toList.map Char.toNat
def ofCps (l : List Nat) : String := String.ofList (l.map Char.ofNat)
def natsJ (l : List Nat) : Json := Json.arr (l.map (fun (n : Nat) => toJson n)).toArray

/-- C18 ops -/
def handleVariant (op : String) (req : Json) : Option Json :=
  match op with
  | "plane1" =>
    let v := (getStr? req "variant").map cps
    let text := cps (getStr req "text")
    some <| match MC.Variant.plane1 MC.Variant.tables v text with
      | some r => okJ (ofCps r)
      | none => panicJ "shift_text:index"
  | "c18_failing" =>
    some <| okJ <| Json.arr <| ((MC.Spec.Variant.failingKeys MC.Variant.tables).map fun (n, c) =>
      Json.arr #[toJson (ofCps n), toJson c]).toArray
  | "c18_result_ok" =>
    some <| okJ <| toJson <| MC.Spec.Variant.resultOk MC.Variant.tables (cps (getStr req "variant")) (getNat req "c") (getNat req "r")
  | "c18_keys" =>
    some <| okJ <| Json.arr <| (MC.Variant.tables.variants.map fun v =>
      Json.arr #[toJson (ofCps v.1), natsJ (MC.Spec.Variant.keysOf MC.Variant.tables v.2)]).toArray
  | _ => none

/-- C17 ops -/
def handlePreproc (op : String) (req : Json) : Option Json :=
  match op with
  | "preproc" =>
    some <| match MC.Preproc.preprocess MC.Preproc.config (cps (getStr req "text")) with
      | .ok r => okJ (ofCps r)
      | .error u => Json.mkObj [("r", "err"), ("kind", "unknown-entity"), ("name", ofCps u)]
  | _ => none

def handlers : List (String → Json → Option Json) := [handleVariant, handlePreproc]

def handle (req : Json) : Json :=
  let op := getStr req "op"
  match handlers.findSome? (fun h => h op req) with
  | some r => r
  | none => errJ "bad-op" s!"mcmodel: unknown op '{op}'"

end MC.Driver
