import Lean.Data.Json
import MC.Driver.Ops
/-!
Model side of the /verif line protocol: one JSON request per line on stdin, one JSON reply per line on stdout.
Only `MC.Model.*`, `MC.Spec.*` and `MC.Gen.*` are imported (never `MC.Props.*`), so the driver still builds when a
regenerated table makes a theorem fail — that is exactly when it is needed to search for a witness.
-/
open Lean

partial def loop (h : IO.FS.Stream) (out : IO.FS.Stream) : IO Unit := do
  let line ← h.getLine
  if line.isEmpty then return ()
  let l := line.trimAscii.toString
  if l.isEmpty then loop h out else
  let reply : Json :=
    match Json.parse l with
    | .error e => Json.mkObj [("r", "err"), ("kind", "bad-json"), ("msg", e)]
    | .ok req => MC.Driver.handle req
  out.putStrLn reply.compress
  out.flush
  loop h out

def main : IO Unit := do
  loop (← IO.getStdin) (← IO.getStdout)
