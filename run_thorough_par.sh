#!/bin/bash
# every thorough check, 5 at a time; results in build/thorough_<Cnn>.txt
cd "$(dirname "$0")"
run_one() { p=$1; s=$(date +%s); VERIF_SEED=${VERIF_SEED:-1} ./check $p --tier thorough > build/thorough_$p.txt 2>&1; rc=$?; echo "$p rc=$rc $(( $(date +%s) - s ))s violations=$(grep -c '^VIOLATION' build/thorough_$p.txt) known=$(grep -c '^KNOWN-FINDING' build/thorough_$p.txt)"; }
export -f run_one
printf "%s\n" C14 C05 C03 C08 C10 C15 C04 C06 C01 C02 C09 C11 C12 C13 C16 C17 C18 C19 C20 C07 | xargs -P 5 -I{} bash -c 'run_one {}'
