"""Gen.Variant (from src/canonicalize.rs) and Gen.Ucd (python unicodedata oracle)."""
import re, unicodedata
from tr_common import *

STYLES = ["BOLD", "ITALIC", "BOLD ITALIC", "SCRIPT", "BOLD SCRIPT", "FRAKTUR", "DOUBLE-STRUCK", "BOLD FRAKTUR",
          "SANS-SERIF", "SANS-SERIF BOLD", "SANS-SERIF ITALIC", "SANS-SERIF BOLD ITALIC", "MONOSPACE"]


def extract_variant(report):
    src = read_src("src/canonicalize.rs")
    body, a, b = find_block(src, r"static\s+MATH_VARIANTS\s*:[^=]*=\s*phf_map!\s*\{")
    variants = []
    for m in re.finditer(r'"([^"]+)"\s*=>\s*\[\s*(0x[0-9A-Fa-f]+|\d+)\s*,\s*(0x[0-9A-Fa-f]+|\d+)\s*,\s*(0x[0-9A-Fa-f]+|\d+)\s*\]', re.sub(r"//.*", "", body)):
        variants.append((m.group(1), int(m.group(2), 0), int(m.group(3), 0), int(m.group(4), 0)))
    if not variants:
        raise ExtractionError("MATH_VARIANTS: no entries")
    body2, a2, b2 = find_block(src, r"static\s+SHIFT_AMOUNTS\s*:[^=]*=\s*phf_map!\s*\{")
    shifts = []
    for m in re.finditer(r"'((?:\\u\{[0-9A-Fa-f]+\}|\\.|[^\\'])+)'\s*=>\s*Offsets\s*\{\s*ch\s*:\s*(\d+)\s*,\s*table\s*:\s*(\d+)\s*\}", re.sub(r"//.*", "", body2)):
        shifts.append((ord(rust_char(m.group(1))), int(m.group(2)), int(m.group(3))))
    if not shifts:
        raise ExtractionError("SHIFT_AMOUNTS: no entries")
    body3, a3, b3 = find_block(src, r"static\s+EXCEPTIONS\s*:[^=]*=\s*phf_map!\s*\{")
    exc = [(int(m.group(1), 16), int(m.group(2), 16)) for m in re.finditer(r"0x([0-9A-Fa-f]+)u32\s*=>\s*0x([0-9A-Fa-f]+)u32", re.sub(r"//.*", "", body3))]
    if not exc:
        raise ExtractionError("EXCEPTIONS: no entries")
    # digamma arm: `if char_mapping[2] == 0x1D6A8 { match ch { 'Ϝ' => '𝟊', ... _ => ch } }`
    m = re.search(r"if\s+char_mapping\[2\]\s*==\s*(0x[0-9A-Fa-f]+)\s*\{\s*match\s+ch\s*\{(.*?)_\s*=>\s*ch", src[b2:b2 + 2000], re.S)
    if not m:
        raise ExtractionError("digamma arm not found")
    dig_start = int(m.group(1), 16)
    dig = [(ord(rust_char(x.group(1))), ord(rust_char(x.group(2)))) for x in re.finditer(r"'([^']+)'\s*=>\s*'([^']+)'", re.sub(r"//.*", "", m.group(2)))]
    report["Variant"] = {"variants": len(variants), "shift_amounts": len(shifts), "exceptions": len(exc), "digamma": len(dig),
                         "span_sha": sha(src[a:b] + src[a2:b2] + src[a3:b3] + m.group(0))}
    out = ["namespace MC.Gen.Variant\n"]
    out.append("/-- (name as code points, start of Latin block, start of digit block, start of Greek block); 0 = not mapped -/")
    out.append("def variants : List (List Nat × Nat × Nat × Nat) := " + lean_list([f"({cps(n)}, {x}, {y}, {z})" for n, x, y, z in variants], 1) + "\n")
    out.append("/-- (character, offset, table index) -/")
    out.append("def shiftAmounts : List (Nat × Nat × Nat) := " + lean_list([f"({c},{o},{t})" for c, o, t in shifts]) + "\n")
    out.append("def exceptions : List (Nat × Nat) := " + lean_list([f"({x},{y})" for x, y in exc]) + "\n")
    out.append(f"def digammaStart : Nat := {dig_start}\n")
    out.append("def digamma : List (Nat × Nat) := " + lean_list([f"({x},{y})" for x, y in dig]) + "\n")
    out.append("end MC.Gen.Variant\n")
    write_if_changed("Variant", "\n".join(out), report)
    return {"variants": variants, "shifts": shifts, "exceptions": exc, "dig_start": dig_start, "digamma": dig}


def style_of(name):
    if name.startswith("MATHEMATICAL "):
        rest = name[len("MATHEMATICAL "):]
        for s in sorted(STYLES, key=len, reverse=True):
            if rest.startswith(s + " "):
                return STYLES.index(s)
        return None
    if name.startswith("SCRIPT "):
        return STYLES.index("SCRIPT")
    if name.startswith("BLACK-LETTER "):
        return STYLES.index("FRAKTUR")
    if name.startswith("DOUBLE-STRUCK "):
        return STYLES.index("DOUBLE-STRUCK")
    if name == "PLANCK CONSTANT":
        return STYLES.index("ITALIC")
    return None


def extract_ucd(report):
    """All characters of the Mathematical Alphanumeric Symbols block and the Letterlike Symbols block whose
    compatibility decomposition is `<font> X`: (cp, base X, style id, in_math_block)."""
    rows = []
    for cp in list(range(0x2100, 0x2150)) + list(range(0x1D400, 0x1D800)):
        ch = chr(cp)
        d = unicodedata.decomposition(ch)
        if not d.startswith("<font> "):
            continue
        parts = d.split()
        if len(parts) != 2:
            continue
        name = unicodedata.name(ch, "")
        st = style_of(name)
        if st is None:
            continue
        rows.append((cp, int(parts[1], 16), st, 1 if cp >= 0x1D400 else 0))
    report["Ucd"] = {"rows": len(rows), "unidata_version": unicodedata.unidata_version}
    # three views of the same rows (the kernel is slow on long list walks, so the block is also packed into one Nat):
    #  blockPacked: 1024 fields of 32 bits, field i describes U+1D400+i: bit 25 = present, bits 21..24 = style, bits 0..20 = base
    #  letterlike : the (few) Letterlike Symbols rows as a list
    #  byStyle    : style id -> [(base, cp)] restricted to the completeness domain (block, or Letterlike with an ASCII base)
    packed = 0
    for cp, base, st, inblk in rows:
        if inblk:
            packed |= ((1 << 25) | (st << 21) | base) << (32 * (cp - 0x1D400))
    letterlike = [(cp, base, st) for cp, base, st, inblk in rows if not inblk]
    by_style = []
    for s in range(len(STYLES)):
        by_style.append([(base, cp) for cp, base, st, inblk in rows if st == s and (inblk or base < 128)])
    out = ["namespace MC.Gen.Ucd\n"]
    out.append(f"-- python unicodedata, UCD {unicodedata.unidata_version}; styles: " + ", ".join(f"{i}={s}" for i, s in enumerate(STYLES)))
    out.append(f"def blockStart : Nat := {0x1D400}\ndef blockLen : Nat := 1024\n")
    out.append(f"def blockPacked : Nat := 0x{packed:x}\n")
    out.append("def letterlike : List (Nat × Nat × Nat) := " + lean_list([f"({a},{b},{c})" for a, b, c in letterlike]) + "\n")
    out.append("def byStyle : List (List (Nat × Nat)) := " + lean_list([lean_list([f"({a},{b})" for a, b in l], 12, "    ") for l in by_style], 1) + "\n")
    out.append("end MC.Gen.Ucd\n")
    write_if_changed("Ucd", "\n".join(out), report)
    return rows
