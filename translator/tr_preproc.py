"""Gen.Entities / Gen.PreprocRe: entity table (src/entities.in) and the five regex rewrites of set_mathml (src/interface.rs)."""
import re
from html.entities import html5
from tr_common import *


def parse_class(body):
    """'a-zA-Z0-9_' -> [(lo,hi)]; only literal chars and ranges are recognised."""
    out = []
    i = 0
    while i < len(body):
        c = body[i]
        if c == "\\" or c == "[" or c == "^":
            raise ExtractionError(f"unsupported char-class syntax: [{body}]")
        if i + 2 < len(body) and body[i + 1] == "-":
            out.append((ord(c), ord(body[i + 2])))
            i += 3
        else:
            out.append((ord(c), ord(c)))
            i += 1
    return out


def extract_preproc(report):
    src = read_src("src/interface.rs")
    body, a, b = find_block(src, r"pub fn set_mathml\s*\(")
    regs = {}
    for m in re.finditer(r'static\s+ref\s+(\w+)\s*:\s*Regex\s*=\s*Regex::new\(r#"(.*?)"#\)', body):
        regs[m.group(1)] = m.group(2)
    need = ["MATHJAX_V2", "MATHJAX_V3", "NAMESPACE_DECL", "PREFIX", "HTML_ENTITIES"]
    for n in need:
        if n not in regs:
            raise ExtractionError(f"regex {n} not found in set_mathml")
    m = re.fullmatch(r"&\(\[([^\]]+)\]\+\?\);", regs["HTML_ENTITIES"])
    if not m:
        raise ExtractionError(f"HTML_ENTITIES has an unrecognised shape: {regs['HTML_ENTITIES']}")
    ent_class = parse_class(m.group(1))
    mj = []
    for n in ("MATHJAX_V2", "MATHJAX_V3"):
        m = re.fullmatch(r"""class \*= \*\['"\]([A-Za-z-]+)\.\*\?\['"\]""", regs[n])
        if not m:
            raise ExtractionError(f"{n} has an unrecognised shape: {regs[n]}")
        mj.append(m.group(1))
    if regs["NAMESPACE_DECL"] != "xmlns:[[:alpha:]_][[:alnum:]_.-]*":
        raise ExtractionError(f"NAMESPACE_DECL changed: {regs['NAMESPACE_DECL']}")
    if regs["PREFIX"] != "(</?)[[:alpha:]_][[:alnum:]_.-]*:":
        raise ExtractionError(f"PREFIX changed: {regs['PREFIX']}")
    # order and kind of the rewriting calls
    calls = [(m.group(1), m.group(2), m.group(3)) for m in re.finditer(r"\b(\w+)\.(replace_all|replace)\(&mathml_str,\s*([^;]*)\);", body)]
    ids = {"HTML_ENTITIES": 0, "MATHJAX_V2": 1, "MATHJAX_V3": 2, "NAMESPACE_DECL": 3, "PREFIX": 4}
    passes = []
    for name, meth, arg in calls:
        if name not in ids:
            raise ExtractionError(f"unknown rewrite {name}")
        arg = arg.strip()
        if name == "NAMESPACE_DECL" and arg != '"xmlns"':
            raise ExtractionError(f"NAMESPACE_DECL replacement changed: {arg}")
        if name == "PREFIX" and arg != '"$1"':
            raise ExtractionError(f"PREFIX replacement changed: {arg}")
        if name in ("MATHJAX_V2", "MATHJAX_V3") and arg != '""':
            raise ExtractionError(f"{name} replacement changed: {arg}")
        passes.append((ids[name], 1 if meth == "replace_all" else 0))
    if len(passes) != 5:
        raise ExtractionError(f"expected 5 rewriting calls, found {len(passes)}: {calls}")
    esrc = read_src("src/entities.in")
    ents = [(m.group(1), rust_char(m.group(2))) for m in
            re.finditer(r'"([^"]+)"\s*=>\s*"((?:[^"\\]|\\.)*)"', re.sub(r"^\s*//.*$", "", esrc, flags=re.M))]
    if len(ents) < 100:
        raise ExtractionError("entities.in: too few entries parsed")
    report["Preproc"] = {"entities": len(ents), "regexes": regs, "passes": passes, "span_sha": sha(body[:3000] + esrc)}
    out = ["namespace MC.Gen.Preproc\n"]
    out.append("/-- character class of the entity-name regex, as inclusive ranges -/")
    out.append("def entClass : List (Nat × Nat) := " + lean_list([f"({lo},{hi})" for lo, hi in ent_class]) + "\n")
    out.append(f"def mjxV2 : List Nat := {cps(mj[0])}\ndef mjxV3 : List Nat := {cps(mj[1])}\n")
    out.append("/-- rewriting passes in source order: (pass id, 1 = replace_all / 0 = first match only);\n ids: 0 entities, 1 MathJax v2 class, 2 MathJax v3 class, 3 namespace declaration, 4 element prefix -/")
    out.append("def passes : List (Nat × Nat) := " + lean_list([f"({i},{k})" for i, k in passes]) + "\n")
    rows = []
    for n, v in ents:
        h = html5.get(n + ";")
        rows.append(f"({cps(n)}, {cps(v)}, {cps(h) if h is not None else '[]'})")
    out.append("/-- (entity name, replacement text from entities.in, the HTML5 definition of the entity [python html.entities]) -/")
    out.append(chunked_defs("entities", "List Nat × List Nat × List Nat", rows, chunk=250))
    out.append("end MC.Gen.Preproc\n")
    write_if_changed("Preproc", "\n".join(out), report)
    return {"entities": ents, "regs": regs, "passes": passes}
