"""Gen.OpDict: the operator dictionary (src/operator-info.in) and the ad-hoc operator infos of src/canonicalize.rs."""
import re
from tr_common import *

TYPES = {"NONE": 0, "PREFIX": 1, "INFIX": 2, "POSTFIX": 4, "FENCE": 8, "LEFT_FENCE": 9, "RIGHT_FENCE": 12, "UNSPECIFIED": 15}


def parse_info(text):
    """'OperatorInfo{ op_type: OperatorTypes::X, priority: N, next: &None|&Some( OperatorInfo{...} ) }' -> [(type, prio), ...]"""
    out = []
    for m in re.finditer(r"op_type:\s*OperatorTypes::(\w+)\s*,\s*priority:\s*(\d+)", text):
        if m.group(1) not in TYPES:
            raise ExtractionError(f"unknown operator type {m.group(1)}")
        out.append((TYPES[m.group(1)], int(m.group(2))))
    return out


def extract_opdict(report):
    src = read_src("src/operator-info.in")
    src_nc = re.sub(r"//[^\n]*", "", src)
    entries = []
    # entries start at a line beginning with a quoted key followed by =>
    parts = re.split(r'\n\s*(?="(?:[^"\\]|\\.)+"\s*=>)', "\n" + src_nc)
    for p in parts:
        m = re.match(r'\s*"((?:[^"\\]|\\.)+)"\s*=>\s*(OperatorInfo\{.*)', p, re.S)
        if not m:
            continue
        infos = parse_info(m.group(2))
        if not infos or len(infos) > 3:
            raise ExtractionError(f"operator entry with {len(infos)} variants: {m.group(1)}")
        entries.append((rust_char(m.group(1)), infos))
    if len(entries) < 1000:
        raise ExtractionError(f"operator dictionary: only {len(entries)} entries parsed")
    csrc = read_src("src/canonicalize.rs")
    special = {}
    for name in ["LEFT_FENCEPOST", "IMPLIED_TIMES_HIGH_PRIORITY", "IMPLIED_SEPARATOR_HIGH_PRIORITY", "IMPLIED_CHEMICAL_BOND", "IMPLIED_PLUS_SLASH_HIGH_PRIORITY",
                 "DEFAULT_OPERATOR_INFO_PREFIX", "DEFAULT_OPERATOR_INFO_INFIX", "DEFAULT_OPERATOR_INFO_POSTFIX", "ILLEGAL_OPERATOR_INFO"]:
        m = re.search(r"static ref " + name + r"\s*:[^=]*=\s*&?OperatorInfo\{(.*?)\};", csrc, re.S)
        if not m:
            raise ExtractionError(f"{name} not found")
        special[name] = parse_info(m.group(1))[0]
    report["OpDict"] = {"entries": len(entries), "variants": sum(len(i) for _, i in entries), "special": special}
    out = ["namespace MC.Gen.OpDict\n"]
    out.append("/-- (operator text as code points, variants in chain order: (type bits, priority)); type bits: 1 prefix, 2 infix, 4 postfix, 8 fence (9 left fence, 12 right fence) -/")
    out.append(chunked_defs("entries", "List Nat × List (Nat × Nat)", [f"({cps(k)}, [{', '.join(f'({t},{p})' for t, p in infos)}])" for k, infos in entries], chunk=150))
    for name, (t, p) in special.items():
        lname = "".join(w.capitalize() for w in name.lower().split("_"))
        lname = lname[0].lower() + lname[1:]
        out.append(f"def {lname} : Nat × Nat := ({t}, {p})")
    out.append("\nend MC.Gen.OpDict\n")
    write_if_changed("OpDict", "\n".join(out), report)
    return entries, special
