"""Gen.Tts: start/end tag templates of get_string_ssml / get_string_sapi5 and the bookmark templates (src/tts.rs)."""
import re
from tr_common import *

COMMANDS = ["Pause", "Rate", "Volume", "Pitch", "Audio", "Gender", "Voice", "Spell", "Bookmark", "Pronounce"]


def arms(body):
    """{command: arm text} for a `match &command.command { TTSCommand::X => ..., }` body."""
    out = {}
    ms = list(re.finditer(r"TTSCommand::(\w+)\s*=>", body))
    for i, m in enumerate(ms):
        end = ms[i + 1].start() if i + 1 < len(ms) else len(body)
        out[m.group(1)] = body[m.end():end]
    return out


def literals(arm):
    lits = []
    for m in re.finditer(r'(?:format!|String::from)\(\s*"((?:[^"\\]|\\.)*)"', arm):
        lits.append(rust_char(m.group(1)))
    return lits


def extract_tts(report):
    src = read_src("src/tts.rs")
    rows = []
    for eng_id, fn in ((1, "get_string_ssml"), (2, "get_string_sapi5")):
        body, _, _ = find_block(src, r"fn\s+" + fn + r"\s*\(")
        a = arms(body)
        for cid, c in enumerate(COMMANDS):
            if c not in a:
                raise ExtractionError(f"{fn}: no arm for {c}")
            if c == "Bookmark":
                continue
            lits = [re.sub(r"\{[^}]*\}", "{}", l) for l in literals(a[c])]
            starts = [l for l in lits if "<" in l and not l.startswith("</")]
            ends = [l for l in lits if l.startswith("</")]
            if len(starts) > 1 or len(ends) > 1:
                raise ExtractionError(f"{fn}/{c}: ambiguous templates {lits}")
            rows.append((eng_id, cid, starts[0] if starts else "", ends[0] if ends else ""))
    m1 = re.search(r'TTS::SSML\s*=>\s*compute_bookmark_element\(&command\.value,\s*"([^"]+)"', src)
    m2 = re.search(r'TTS::SAPI5\s*=>\s*compute_bookmark_element\(&command\.value,\s*"([^"]+)"', src)
    m3 = re.search(r'format!\("(<\{\}=\'\{\}\'/>)",\s*tag_and_attr,\s*id\)', src)
    if not (m1 and m2 and m3):
        raise ExtractionError("bookmark templates not found")
    bk = m3.group(1)
    rows.append((1, COMMANDS.index("Bookmark"), bk.replace("{}", m1.group(1), 1), ""))
    rows.append((2, COMMANDS.index("Bookmark"), bk.replace("{}", m2.group(1), 1), ""))
    # pause replacement strings of merge_pauses_*
    merges = re.findall(r'let replacement = \|amount: usize\| format!\("((?:[^"\\]|\\.)*)", amount\);', src)
    report["Tts"] = {"templates": len(rows), "merge_templates": merges, "rows": [(e, COMMANDS[c], s, t) for e, c, s, t in rows]}
    out = ["namespace MC.Gen.Tts\n"]
    out.append("-- engines: 1 = SSML, 2 = SAPI5; commands: " + ", ".join(f"{i}={c}" for i, c in enumerate(COMMANDS)))
    out.append("/-- (engine, command, start-tag template, end-tag template); `{}` marks an inserted value -/")
    out.append("def templates : List (Nat × Nat × List Nat × List Nat) := " + lean_list([f"({e}, {c}, {cps(s)}, {cps(t)})" for e, c, s, t in rows], 1) + "\n")
    out.append("/-- replacement templates of merge_pauses_ssml / merge_pauses_sapi5 -/")
    out.append("def mergeTemplates : List (List Nat) := " + lean_list([cps(re.sub(r"\{[^}]*\}", "{}", rust_char(m))) for m in merges], 1) + "\n")
    out.append("end MC.Gen.Tts\n")
    write_if_changed("Tts", "\n".join(out), report)
    return rows
