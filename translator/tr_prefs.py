"""Gen.Prefs: default preference maps (src/prefs.rs), float preference names (src/interface.rs), flattened Rules/prefs.yaml
(typed by MathCAT's own yaml-rust through the harness), USE_DECIMAL_SEPARATOR."""
import json, os, re, subprocess
from tr_common import *


def lstr(s):
    return json.dumps(s, ensure_ascii=False).replace("\\u00a0", "\\u00A0")


def lean_string(s):
    out = '"'
    for ch in s:
        o = ord(ch)
        if ch == '"':
            out += '\\"'
        elif ch == "\\":
            out += "\\\\"
        elif o < 32 or o in (0xA0, 0x202F) or 0xF000 <= o <= 0xFFFF:
            out += "\\u%04x" % o
        else:
            out += ch
    return out + '"'


def yaml2json(path, mcdrive):
    env = dict(os.environ)
    p = subprocess.run([mcdrive], input=json.dumps({"op": "yaml2json", "file": path}) + "\n", capture_output=True, text=True, env=env)
    r = json.loads(p.stdout.strip().split("\n")[0])
    if r.get("r") != "ok":
        raise ExtractionError(f"yaml2json {path}: {r}")
    return r["v"]


def val_term(v):
    if isinstance(v, bool):
        return f".bool {'true' if v else 'false'}"
    if isinstance(v, int):
        return f".num {lean_string(str(v))}"
    if isinstance(v, dict) and "real" in v:
        return f".num {lean_string(v['real'])}"
    if isinstance(v, str):
        return f".str {lean_string(v)}"
    return None


def flatten(doc, prefix, out):
    """add_prefs of prefs.rs"""
    if not isinstance(doc, list):
        return
    for kv in doc:
        if not (isinstance(kv, dict) and "k" in kv):
            return
        k, v = kv["k"], kv["v"]
        if not isinstance(k, str):
            continue
        if isinstance(v, list) and (not v or (isinstance(v[0], dict) and "k" in v[0])):
            flatten(v, prefix + k + "_", out)
        else:
            t = val_term(v)
            if t is not None:
                out.append((prefix + k.strip(), t))


def rust_defaults(src, fn):
    body, _, _ = find_block(src, r"fn\s+" + fn + r"\s*\(\)\s*->\s*Preferences\s*\{")
    out = []
    for m in re.finditer(r'prefs\.insert\("([^"]+)"\.to_string\(\),\s*Yaml::(String|Boolean|Real)\((?:"((?:[^"\\]|\\.)*)"\.to_string\(\)|(true|false))\)\)', body):
        name, kind = m.group(1), m.group(2)
        if kind == "Boolean":
            out.append((name, f".bool {m.group(4)}"))
        elif kind == "Real":
            out.append((name, f".num {lean_string(rust_char(m.group(3)))}"))
        else:
            out.append((name, f".str {lean_string(rust_char(m.group(3)))}"))
    if not out:
        raise ExtractionError(f"{fn}: nothing parsed")
    return out


def extract_prefs(report, mcdrive):
    psrc = read_src("src/prefs.rs")
    isrc = read_src("src/interface.rs")
    user_defaults = rust_defaults(psrc, "user_defaults")
    api_defaults = rust_defaults(psrc, "api_defaults")
    m = re.search(r'match name\.as_str\(\) \{\s*((?:"[A-Za-z_]+"\s*\|?\s*)+)=>\s*\{\s*pref_manager\.set_api_float_pref', isrc)
    if not m:
        raise ExtractionError("float preference list not found in set_preference")
    floats = re.findall(r'"([A-Za-z_]+)"', m.group(1))
    body, _, _ = find_block(psrc, r"static\s+USE_DECIMAL_SEPARATOR\s*:[^=]*=\s*phf_set!\s*\{")
    use_dec = re.findall(r'"([^"]+)"', re.sub(r"//.*", "", body))
    docs = yaml2json(os.path.join(REPO, "Rules", "prefs.yaml"), mcdrive)
    if len(docs) != 1:
        raise ExtractionError("prefs.yaml: expected one document")
    flat = []
    doc = {kv["k"]: kv["v"] for kv in docs[0]}
    for sect in ("Speech", "Navigation", "Braille", "Other"):
        flatten(doc.get(sect), "", flat)
    report["Prefs"] = {"user_defaults": len(user_defaults), "api_defaults": len(api_defaults), "floats": floats, "prefs_yaml_flat": len(flat),
                       "use_decimal": len(use_dec)}
    out = ["import MC.Model.PrefsTypes\nnamespace MC.Gen.Prefs\nopen MC.Prefs\n"]
    out.append("def userDefaults : List (String × Val) := " + lean_list([f"({lean_string(n)}, {t})" for n, t in user_defaults], 2) + "\n")
    out.append("def apiDefaults : List (String × Val) := " + lean_list([f"({lean_string(n)}, {t})" for n, t in api_defaults], 2) + "\n")
    out.append("/-- Rules/prefs.yaml flattened as add_prefs does (in file order; later entries overwrite earlier ones) -/")
    out.append("def prefsYaml : List (String × Val) := " + lean_list([f"({lean_string(n)}, {t})" for n, t in flat], 2) + "\n")
    out.append("def floatNames : List String := " + lean_list([lean_string(f) for f in floats]) + "\n")
    out.append("def useDecimalPoint : List String := " + lean_list([lean_string(f) for f in use_dec]) + "\n")
    out.append("end MC.Gen.Prefs\n")
    write_if_changed("Prefs", "\n".join(out), report)
    return {"user_defaults": user_defaults, "api_defaults": api_defaults, "floats": floats, "flat": flat, "use_dec": use_dec}
