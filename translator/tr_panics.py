"""Panic-capable sites of /repo/src (outside #[cfg(test)] modules): unwrap / expect / panic! / unreachable! / assert! / todo!,
each with its enclosing function, and whether a Lean model with a no-panic theorem covers that function."""
import os, re
import tr_common

SITE = re.compile(r"\.unwrap\(\)|\.expect\(|\bpanic!\s*\(|\bunreachable!\s*\(|\bassert(?:_eq|_ne)?!\s*\(|\btodo!\s*\(|\bunimplemented!\s*\(")
FN = re.compile(r"^\s*(?:pub(?:\([a-z]+\))?\s+)?(?:const\s+)?(?:unsafe\s+)?fn\s+([A-Za-z_0-9]+)")

# function -> (property whose model transcribes it, theorem that shows the model's panic outcomes unreachable or None)
COVER = {
    ("prefs.rs", "set_string_pref"): ("C12", "MC.Props.C12.no_panic_after_any_history"),
    ("prefs.rs", "set_api_float_pref"): ("C12", "MC.Props.C12.no_panic_after_any_history"),
    ("prefs.rs", "set_api_boolean_pref"): ("C12", "MC.Props.C12.no_panic_after_any_history"),
    ("prefs.rs", "set_user_prefs"): ("C12", None),
    ("prefs.rs", "pref_to_string"): ("C12", "MC.Props.C12.getPreference_no_panic"),
    ("interface.rs", "set_preference"): ("C12", "MC.Props.C12.no_panic_after_any_history"),
    ("interface.rs", "get_preference"): ("C12", "MC.Props.C12.getPreference_no_panic"),
    ("interface.rs", "add_ids"): ("C09", "MC.Props.C09.addIds_distinct (total function, no partial operation)"),
    ("interface.rs", "add_ids_to_all"): ("C09", "MC.Props.C09.addIds_distinct (total function, no partial operation)"),
    ("navigate.rs", "pop"): ("C11", "MC.Props.C11.pop_no_panic"),
    ("navigate.rs", "pop_stack"): ("C11", "MC.Props.C11.inv_popStack"),
    ("navigate.rs", "apply_navigation_rules"): ("C11", None),
    ("navigate.rs", "do_navigate_command_string"): ("C11", None),
    ("infer_intent.rs", "infer_intent"): ("C19", "MC.Props.C19.inferIntent_no_panic"),
    ("braille.rs", "highlight_braille_chars"): ("C20", "MC.Props.C20.highlightChars_no_panic"),
    ("braille.rs", "highlight_first_indicator"): ("C20", "MC.Props.C20.firstIndicator_no_panic"),
    ("braille.rs", "i_start_nemeth"): ("C20", "MC.Props.C20.firstIndicator_no_panic"),
    ("braille.rs", "i_start_ueb"): ("C20", "MC.Props.C20.firstIndicator_no_panic"),
    ("braille.rs", "LaTeX_cleanup"): ("C06", "MC.TextCodes.latexCleanup (total function; regex construction unwraps are load-time constants)"),
    ("braille.rs", "ASCIIMath_cleanup"): ("C06", "MC.TextCodes.asciimathCleanup (total function; regex construction unwraps are load-time constants)"),
    ("canonicalize.rs", "canonicalize_mrows_in_mrow"): ("C03", "MC.Props.C03NP.parseRow_no_panic (for the modelled path: rows of plain tokens without the right quotation marks as mo)"),
    ("canonicalize.rs", "reduce_stack_one_time"): ("C03", "MC.Props.C03NP.parseRow_no_panic (for the modelled path: rows of plain tokens without the right quotation marks as mo)"),
    ("canonicalize.rs", "shift_stack"): ("C03", "MC.Props.C03NP.parseRow_no_panic (for the modelled path: rows of plain tokens without the right quotation marks as mo)"),
    ("canonicalize.rs", "find_operator"): ("C03", None),
    ("canonicalize.rs", "add_child_to_mrow"): ("C03", "MC.Props.C03NP.parseRow_no_panic (for the modelled path: rows of plain tokens without the right quotation marks as mo)"),
    ("canonicalize.rs", "remove_last_operand_from_mrow"): ("C03", "MC.Props.C03NP.parseRow_no_panic (for the modelled path: rows of plain tokens without the right quotation marks as mo)"),
    ("canonicalize.rs", "reduce_stack"): ("C03", "MC.Props.C03NP.parseRow_no_panic (for the modelled path: rows of plain tokens without the right quotation marks as mo)"),
    ("canonicalize.rs", "shift_text"): ("C18", "MC.Props.C18.shiftText_total"),
    ("canonicalize.rs", "canonicalize_plane1"): ("C18", "MC.Props.C18.shiftText_total"),
    ("speech.rs", "is_repetitive"): ("C04", None),
    ("speech.rs", "replace_array_string"): ("C04", None),
}


def scan():
    src_dir = os.path.join(tr_common.REPO, "src")
    sites = []
    for f in sorted(os.listdir(src_dir)):
        if not f.endswith(".rs") or f in ("main.rs",):
            continue
        lines = open(os.path.join(src_dir, f), encoding="utf-8").read().split("\n")
        fn = None
        in_test = False
        for i, l in enumerate(lines):
            if re.match(r"\s*#\[cfg\(test\)\]", l):
                in_test = True           # test modules are at the end of each file
            if in_test:
                continue
            m = FN.match(l)
            if m:
                fn = m.group(1)
            code = l.split("//")[0]
            if re.search(r"Regex::new\(|RegexSet::new\(|lazy_static|static ref", code):
                kind = "static-init"
            else:
                kind = "runtime"
            for m in SITE.finditer(code):
                sites.append({"file": f, "line": i + 1, "fn": fn, "what": m.group(0).strip(".( "), "kind": kind})
    return sites


def account():
    sites = scan()
    out = {"total": len(sites), "static_init": 0, "covered_by_theorem": 0, "modelled_not_proved": 0, "not_modelled": 0, "by_file": {}, "theorems": {}}
    for s in sites:
        if s["kind"] == "static-init":
            out["static_init"] += 1
            cls = "static_init"
        else:
            c = COVER.get((s["file"], s["fn"]))
            if c and c[1]:
                out["covered_by_theorem"] += 1
                out["theorems"][c[1]] = out["theorems"].get(c[1], 0) + 1
                cls = "covered"
            elif c:
                out["modelled_not_proved"] += 1
                cls = "modelled"
            else:
                out["not_modelled"] += 1
                cls = "not_modelled"
        d = out["by_file"].setdefault(s["file"], {"covered": 0, "modelled": 0, "not_modelled": 0, "static_init": 0})
        d[cls] += 1
    return out, sites


if __name__ == "__main__":
    import json
    a, _ = account()
    print(json.dumps(a, indent=1))
