"""Gen.Highlight: the character sets used by highlight_braille_chars (src/braille.rs)."""
import re
from tr_common import *


def char_set(src, name):
    body, _, _ = find_block(src, r"static\s+" + name + r"\s*:[^=]*=\s*phf_set!\s*\{")
    chars = [ord(rust_char(m.group(1))) for m in re.finditer(r"'((?:\\u\{[0-9A-Fa-f]+\}|\\.|[^\\'])+)'", re.sub(r"//.*", "", body))]
    if not chars:
        raise ExtractionError(f"{name}: empty")
    return chars


def extract_highlight(report):
    src = read_src("src/braille.rs")
    ueb = char_set(src, "UEB_PREFIXES")
    nem = char_set(src, "NEMETH_NUMBERS")
    tf = char_set(src, "UEB_TYPEFORM_PREFIXES")
    m = re.search(r"fn is_highlighted\(ch: char\) -> bool \{.*?return \((0x[0-9A-Fa-f]+)\.\.(=?)(0x[0-9A-Fa-f]+)\)\.contains", src, re.S)
    if not m:
        raise ExtractionError("is_highlighted range not found")
    lo, incl, hi = int(m.group(1), 16), m.group(2) == "=", int(m.group(3), 16)
    m2 = re.search(r"fn unhighlight\(ch: char\) -> char \{.*?if \((0x[0-9A-Fa-f]+)\.\.(=?)(0x[0-9A-Fa-f]+)\)\.contains", src, re.S)
    if not m2:
        raise ExtractionError("unhighlight range not found")
    lo2, incl2, hi2 = int(m2.group(1), 16), m2.group(2) == "=", int(m2.group(3), 16)
    report["Highlight"] = {"ueb_prefixes": len(ueb), "nemeth_numbers": len(nem), "typeform": len(tf), "is_highlighted": [lo, hi + (1 if incl else 0)]}
    out = ["namespace MC.Gen.Highlight\n"]
    out.append("def uebPrefixes : List Nat := " + lean_list([str(c) for c in ueb]))
    out.append("def nemethNumbers : List Nat := " + lean_list([str(c) for c in nem]))
    out.append("def uebTypeformPrefixes : List Nat := " + lean_list([str(c) for c in tf]))
    out.append(f"/-- `is_highlighted`: lo ≤ c < hi -/\ndef hlLo : Nat := {lo}\ndef hlHi : Nat := {hi + (1 if incl else 0)}")
    out.append(f"/-- range test inside `unhighlight` -/\ndef unhlLo : Nat := {lo2}\ndef unhlHi : Nat := {hi2 + (1 if incl2 else 0)}")
    out.append("end MC.Gen.Highlight\n")
    write_if_changed("Highlight", "\n".join(out), report)
