"""Regenerate every Gen module from /repo's working tree."""
import json, sys
import os, tr_common, tr_variant, tr_preproc, tr_prefs, tr_tts, tr_highlight, tr_braille, tr_opdict
MCDRIVE = os.path.join(tr_common.VERIF, "build", "target", "debug", "mcdrive")


def main():
    report = {}
    steps = [tr_variant.extract_variant, tr_variant.extract_ucd, tr_preproc.extract_preproc, lambda r: tr_prefs.extract_prefs(r, MCDRIVE), tr_tts.extract_tts, tr_highlight.extract_highlight, lambda r: tr_braille.extract_braille(r, MCDRIVE), tr_opdict.extract_opdict]
    for s in steps:
        try:
            s(report)
        except tr_common.ExtractionError as e:
            report.setdefault("errors", []).append(getattr(s, "__name__", "step") + ": " + str(e))
    print(json.dumps({k: v for k, v in report.items() if k != "modules"}))
    return report


if __name__ == "__main__":
    main()
