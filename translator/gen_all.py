"""Regenerate every Gen module from /repo's working tree."""
import json, sys
import tr_common, tr_variant, tr_preproc


def main():
    report = {}
    steps = [tr_variant.extract_variant, tr_variant.extract_ucd, tr_preproc.extract_preproc]
    for s in steps:
        try:
            s(report)
        except tr_common.ExtractionError as e:
            report.setdefault("errors", []).append(f"{s.__name__}: {e}")
    print(json.dumps({k: v for k, v in report.items() if k != "modules"}))
    return report


if __name__ == "__main__":
    main()
