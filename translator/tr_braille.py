"""Gen.BrailleTabs: indicator replacement tables, REPLACE_INDICATORS classes (src/braille.rs) and the characters of every
literal the braille rule files can emit (Rules/Braille/<code>/*.yaml through MathCAT's yaml-rust)."""
import glob, json, os, re, subprocess
from tr_common import *

CODES = ["Nemeth", "UEB", "Vietnam", "CMU", "Swedish", "Finnish"]
TABLE_OF = {"Nemeth": "NEMETH", "UEB": "UEB", "Vietnam": "VIETNAM", "CMU": "CMU", "Swedish": "SWEDISH", "Finnish": "FINNISH"}
CLEANUP_FN = {"Nemeth": "nemeth_cleanup", "UEB": "ueb_cleanup", "Vietnam": "vietnam_cleanup", "CMU": "cmu_cleanup", "Swedish": "swedish_cleanup", "Finnish": "finnish_cleanup"}
RULE_DIR = {"Nemeth": "Nemeth", "UEB": "UEB", "Vietnam": "Vietnam", "CMU": "CMU", "Swedish": "Swedish", "Finnish": None}


def parse_class(body):
    """regex-crate semantics of a bracket class body (no escapes/negation/nested classes expected): list of inclusive ranges"""
    chars = list(body)
    out = []
    i = 0
    while i < len(chars):
        c = chars[i]
        if c in "\\[^" and not (c == "^" and i > 0):
            raise ExtractionError(f"unsupported class syntax in [{body}]")
        if i + 2 < len(chars) and chars[i + 1] == "-":
            lo, hi = ord(c), ord(chars[i + 2])
            if lo > hi:
                raise ExtractionError(f"invalid range {c}-{chars[i+2]}")
            out.append((lo, hi))
            i += 3
        else:
            out.append((ord(c), ord(c)))
            i += 1
    return out


def collect_lits(node, out):
    if isinstance(node, list):
        for x in node:
            if isinstance(x, dict) and "k" in x and "v" in x:
                k, v = x["k"], x["v"]
                if k in ("t", "ct", "ot", "T", "CT", "OT") and isinstance(v, str):
                    out.append(v)
                else:
                    collect_lits(v, out)
            else:
                collect_lits(x, out)


def yaml_docs(path, mcdrive):
    p = subprocess.run([mcdrive], input=json.dumps({"op": "yaml2json", "file": path}) + "\n", capture_output=True, text=True)
    r = json.loads(p.stdout.strip().split("\n")[0])
    if r.get("r") != "ok":
        raise ExtractionError(f"yaml2json {path}: {r}")
    return r["v"]


def extract_braille(report, mcdrive):
    src = read_src("src/braille.rs")
    tables, classes, overridden = {}, {}, {}
    # global class
    mg = None
    for m in re.finditer(r"static ref REPLACE_INDICATORS: Regex\s*=\s*Regex::new\(r\"\(\[(.*?)\]\)\"\)", src):
        pass
    fn_spans = {}
    for code, fn in CLEANUP_FN.items():
        body, a, b = find_block(src, r"fn\s+" + fn + r"\s*\(")
        fn_spans[code] = (a, b, body)
    class_defs = [(m.start(), m.group(1)) for m in re.finditer(r"static ref REPLACE_INDICATORS: Regex\s*=\s*Regex::new\(r\"\(\[(.*?)\]\)\"\)", src)]
    global_defs = [c for pos, c in class_defs if not any(a <= pos < b for a, b, _ in fn_spans.values())]
    if len(global_defs) != 1:
        raise ExtractionError(f"expected one module-level REPLACE_INDICATORS, found {len(global_defs)}")
    for code in CODES:
        a, b, body = fn_spans[code]
        own = [c for pos, c in class_defs if a <= pos < b]
        classes[code] = parse_class(own[0] if own else global_defs[0])
        tb, _, _ = find_block(src, r"static\s+" + TABLE_OF[code] + r"_INDICATOR_REPLACEMENTS\s*:[^=]*=\s*phf_map!\s*\{")
        tb = re.sub(r"^\s*//.*$", "", tb, flags=re.M)
        tables[code] = [(rust_char(m.group(1)), rust_char(m.group(2))) for m in re.finditer(r'"((?:[^"\\]|\\.)*)"\s*=>\s*"((?:[^"\\]|\\.)*)"', re.sub(r"//.*", "", tb))]
        if not tables[code]:
            raise ExtractionError(f"{code}: empty table")
        # keys replaced from preferences inside the closure: `"X" => &some_pref,`
        m = re.search(r"REPLACE_INDICATORS\.replace_all\(&result, \|cap: &Captures\| \{(.*?)\}\);", body, re.S)
        overridden[code] = re.findall(r'"([^"]+)"\s*=>\s*&\w+\s*,', m.group(1)) if m else []
    lits = {}
    diagnostics = set()
    handled = {}
    for code in CODES:
        _, _, body = fn_spans[code]
        hs = set()
        for m in re.finditer(r'r?"((?:[^"\\]|\\.)*)"', body):
            for ch in m.group(1):
                if ch.isalpha() or ord(ch) > 127:
                    hs.add(ch)
        handled[code] = sorted(hs)
    for code in CODES:
        chars = set()
        d = RULE_DIR[code]
        if d:
            for f in sorted(glob.glob(os.path.join(REPO, "Rules", "Braille", d, "*.yaml"))):
                out = []
                collect_lits(yaml_docs(f, mcdrive), out)
                for s in out:
                    if re.fullmatch(r"[a-z]+( [a-z]+)+", s):
                        diagnostics.add(s)      # e.g. "unknown math m l element": spoken-style message for elements the code does not cover
                        continue
                    chars.update(s)
        lits[code] = sorted(chars)
    report["BrailleTabs"] = {c: {"keys": len(tables[c]), "class_ranges": len(classes[c]), "overridden": overridden[c], "literal_chars": len(lits[c])} for c in CODES}
    report["BrailleTabs"]["diagnostic_literals_excluded"] = sorted(diagnostics)
    out = ["namespace MC.Gen.BrailleTabs\n"]
    out.append("-- codes: " + ", ".join(f"{i}={c}" for i, c in enumerate(CODES)))
    out.append("/-- per code: replacement table (key code points, value code points) -/")
    out.append("def tables : List (List (List Nat × List Nat)) := " + lean_list([lean_list([f"({cps(k)}, {cps(v)})" for k, v in tables[c]], 4, "    ") for c in CODES], 1) + "\n")
    out.append("/-- per code: the REPLACE_INDICATORS character class as inclusive ranges (regex-crate reading: `a-b` is a range) -/")
    out.append("def classes : List (List (Nat × Nat)) := " + lean_list([lean_list([f"({lo},{hi})" for lo, hi in classes[c]], 10, "    ") for c in CODES], 1) + "\n")
    out.append("/-- per code: keys whose value comes from a preference inside the replacement closure -/")
    out.append("def overridden : List (List (List Nat)) := " + lean_list([lean_list([cps(k) for k in overridden[c]], 8, "    ") for c in CODES], 1) + "\n")
    out.append("/-- per code: every character occurring in a t:/ct:/ot: literal of the code's rule and unicode files -/")
    out.append("def literalChars : List (List Nat) := " + lean_list([lean_list([str(ord(ch)) for ch in lits[c]], 16, "    ") for c in CODES], 1) + "\n")
    out.append("/-- per code: letters / non-ASCII characters that occur literally in the regexes and replace() calls of the code's clean-up function (handled before or after the final phase) -/")
    out.append("def handledChars : List (List Nat) := " + lean_list([lean_list([str(ord(ch)) for ch in handled[c]], 16, "    ") for c in CODES], 1) + "\n")
    out.append("end MC.Gen.BrailleTabs\n")
    write_if_changed("BrailleTabs", "\n".join(out), report)
    return {"tables": tables, "classes": classes, "overridden": overridden, "lits": lits, "handled": handled}
